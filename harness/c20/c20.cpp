// C20 - concurrent use needs no locking.  schedx: controlled scheduler + access-level conflict
// detection over compiler-instrumented thread bodies (see body.cpp).
//
// This translation unit is NOT instrumented.  It provides
//   * the __tsan_* callbacks clang inserted into body.o: every memory access of a worker thread
//     is classified (own stack / own arena = private; everything else = shared) and logged, every
//     function entry is a scheduling point;
//   * logging wrappers for the libc memory functions body.o references (renamed by objcopy);
//   * per-thread bump arenas behind operator new/delete, reset at each operation, so that a
//     thread's addresses do not depend on the interleaving;
//   * a baton scheduler: exactly one thread runs at a time, the controller (main thread) decides
//     who runs and where a preemption happens, so an execution is a pure function of the choices;
//   * the explorer: for every thread program over the operation alphabet
//       - every operation-level interleaving is executed,
//       - a preemption is placed at EVERY function entry of every thread (bound 1; bound 2 for
//         the core alphabet in the thorough tier),
//     and in every execution each thread's result and access trace must equal its solo run, no
//     two threads may touch the same non-private byte with at least one write, no thread may
//     touch another thread's arena, and shared objects / library statics must be byte-identical
//     afterwards.
#define VF_MAIN_TU
#include "verif.h"
#include <pthread.h>
#include <linux/futex.h>
#include <sys/syscall.h>
#include <new>
#include <cwchar>
#include <clocale>
#include <ctime>
#include <cstdlib>
struct C20Shared;  // opaque here: this translation unit must not instantiate any library code (see body.cpp)

using vf::Ctx;
using vf::strf;

extern "C" int c20_num_ops();
extern "C" const char *c20_op_name(int op);
extern "C" void c20_run_op(int op, int salt, const C20Shared *sh, char *out, size_t cap);
extern "C" C20Shared *c20_make_shared();
extern "C" size_t c20_shared_image(const C20Shared *sh, char *buf, size_t cap);

namespace sx {

enum { MAXT = 3, MAXOPS = 2, ARENA = 4 << 20, LOGCAP = 1 << 15, RESCAP = 24576 };
enum Status { ST_NEW, ST_RUNNING, ST_PREEMPTED, ST_OPDONE, ST_FINISHED };

struct Access {
    uintptr_t a;
    uint32_t n;
    uint32_t w;
};

struct Thread {
    int id = 0;
    pthread_t th;
    char *arena = nullptr;
    size_t bump = 0;
    uintptr_t stack_lo = 0, stack_hi = 0, op_sp = 0;
    Access *log = nullptr;
    uint32_t nlog = 0;
    bool log_overflow = false;
    bool in_op = false;
    uint64_t points = 0, stop_at = ~0ull;
    uint64_t trace[MAXOPS];
    uint64_t naccess[MAXOPS];
    uint64_t npoints[MAXOPS];
    int status = ST_NEW;
    int program[MAXOPS];
    int nops = 0, pc = 0;
    int salt = 0;
    char *results[MAXOPS];
    bool foreign = false;
    char foreign_msg[160];
};

static Thread g_thr[MAXT];
static __thread Thread *cur = nullptr;
static int g_turn = -1;  // -1 = controller
static const C20Shared *g_shared = nullptr;

static void futex_wait(int *addr, int val) { syscall(SYS_futex, addr, FUTEX_WAIT, val, nullptr, nullptr, 0); }
static void futex_wake(int *addr) { syscall(SYS_futex, addr, FUTEX_WAKE, INT32_MAX, nullptr, nullptr, 0); }
static void wait_turn(int me)
{
    for (;;) {
        int t = __atomic_load_n(&g_turn, __ATOMIC_ACQUIRE);
        if (t == me) return;
        futex_wait(&g_turn, t);
    }
}
static void pass_to(int who)
{
    __atomic_store_n(&g_turn, who, __ATOMIC_RELEASE);
    futex_wake(&g_turn);
}
static void yield_to_controller(int status)
{
    Thread *t = cur;
    t->status = status;
    pass_to(-1);
    wait_turn(t->id);
    t->status = ST_RUNNING;
}

static inline uint64_t mix(uint64_t h, uint64_t v)
{
    h ^= v + 0x9E3779B97F4A7C15ull + (h << 6) + (h >> 2);
    return h * 0xFF51AFD7ED558CCDull;
}

static inline void acc(const void *p, size_t n, int w)
{
    Thread *t = cur;
    if (!t || !t->in_op) return;
    uintptr_t a = (uintptr_t)p;
    int op = t->pc;
    t->naccess[op]++;
    if (a >= t->stack_lo && a < t->stack_hi) {
        t->trace[op] = mix(t->trace[op], ((a - t->op_sp) << 8) ^ (n << 2) ^ (unsigned)w ^ 0x1000000000000000ull);
        return;
    }
    if (a >= (uintptr_t)t->arena && a < (uintptr_t)t->arena + ARENA) {
        t->trace[op] = mix(t->trace[op], ((a - (uintptr_t)t->arena) << 8) ^ (n << 2) ^ (unsigned)w ^ 0x2000000000000000ull);
        return;
    }
    if (a >= (uintptr_t)t->results[op] && a < (uintptr_t)t->results[op] + RESCAP) {
        // the thread's own result slot for this operation (harness memory handed to this thread only)
        t->trace[op] = mix(t->trace[op], ((a - (uintptr_t)t->results[op]) << 8) ^ (n << 2) ^ (unsigned)w ^ 0x4000000000000000ull);
        return;
    }
    t->trace[op] = mix(t->trace[op], (a << 8) ^ (n << 2) ^ (unsigned)w ^ 0x3000000000000000ull);
    for (int k = 0; k < MAXT; ++k) {
        Thread &o = g_thr[k];
        if (&o != t && o.arena && a >= (uintptr_t)o.arena && a < (uintptr_t)o.arena + ARENA && !t->foreign) {
            t->foreign = true;
            snprintf(t->foreign_msg, sizeof t->foreign_msg, "thread %d %s %zu byte(s) inside memory allocated by thread %d (arena offset %zu)", t->id,
                     w ? "writes" : "reads", n, o.id, (size_t)(a - (uintptr_t)o.arena));
        }
    }
    if (t->nlog && t->log[t->nlog - 1].a == a && t->log[t->nlog - 1].n == n && t->log[t->nlog - 1].w == (uint32_t)w) return;
    if (t->nlog < LOGCAP) t->log[t->nlog++] = Access{a, (uint32_t)n, (uint32_t)w};
    else t->log_overflow = true;
}

}  // namespace sx

// ------------------------------------------------------------------------------------------------ instrumentation callbacks
extern "C" {
void __tsan_init() {}
void __tsan_func_entry(void *)
{
    sx::Thread *t = sx::cur;
    if (!t || !t->in_op) return;
    ++t->points;
    t->npoints[t->pc]++;
    if (t->points == t->stop_at) sx::yield_to_controller(sx::ST_PREEMPTED);
}
void __tsan_func_exit() {}
#define RW(N)                                                           \
    void __tsan_read##N(void *a) { sx::acc(a, N, 0); }                  \
    void __tsan_write##N(void *a) { sx::acc(a, N, 1); }                 \
    void __tsan_unaligned_read##N(void *a) { sx::acc(a, N, 0); }        \
    void __tsan_unaligned_write##N(void *a) { sx::acc(a, N, 1); }
RW(1)
RW(2)
RW(4)
RW(8)
RW(16)
void __tsan_read_range(void *a, unsigned long n) { sx::acc(a, n, 0); }
void __tsan_write_range(void *a, unsigned long n) { sx::acc(a, n, 1); }
void __tsan_vptr_update(void **vptr, void *) { sx::acc(vptr, 8, 1); }
void __tsan_vptr_read(void **vptr) { sx::acc(vptr, 8, 0); }
void __tsan_read1_pc(void *a, void *) { sx::acc(a, 1, 0); }
void __tsan_ignore_thread_begin() {}
void __tsan_ignore_thread_end() {}
// the library has no atomics; libstdc++ code instantiated in the body (shared_ptr, locale ids) might: treat as accesses,
// performed with real atomic builtins
#define ATOM(BITS, T)                                                                                                       \
    T __tsan_atomic##BITS##_load(const volatile T *a, int) { sx::acc((const void *)a, sizeof(T), 0); return __atomic_load_n(a, __ATOMIC_SEQ_CST); } \
    void __tsan_atomic##BITS##_store(volatile T *a, T v, int) { sx::acc((const void *)a, sizeof(T), 1); __atomic_store_n(a, v, __ATOMIC_SEQ_CST); } \
    T __tsan_atomic##BITS##_exchange(volatile T *a, T v, int) { sx::acc((const void *)a, sizeof(T), 1); return __atomic_exchange_n(a, v, __ATOMIC_SEQ_CST); } \
    T __tsan_atomic##BITS##_fetch_add(volatile T *a, T v, int) { sx::acc((const void *)a, sizeof(T), 1); return __atomic_fetch_add(a, v, __ATOMIC_SEQ_CST); } \
    T __tsan_atomic##BITS##_fetch_sub(volatile T *a, T v, int) { sx::acc((const void *)a, sizeof(T), 1); return __atomic_fetch_sub(a, v, __ATOMIC_SEQ_CST); } \
    T __tsan_atomic##BITS##_fetch_and(volatile T *a, T v, int) { sx::acc((const void *)a, sizeof(T), 1); return __atomic_fetch_and(a, v, __ATOMIC_SEQ_CST); } \
    T __tsan_atomic##BITS##_fetch_or(volatile T *a, T v, int) { sx::acc((const void *)a, sizeof(T), 1); return __atomic_fetch_or(a, v, __ATOMIC_SEQ_CST); } \
    T __tsan_atomic##BITS##_fetch_xor(volatile T *a, T v, int) { sx::acc((const void *)a, sizeof(T), 1); return __atomic_fetch_xor(a, v, __ATOMIC_SEQ_CST); } \
    int __tsan_atomic##BITS##_compare_exchange_strong(volatile T *a, T *c, T v, int, int)                                    \
    {                                                                                                                       \
        sx::acc((const void *)a, sizeof(T), 1);                                                                             \
        return __atomic_compare_exchange_n(a, c, v, 0, __ATOMIC_SEQ_CST, __ATOMIC_SEQ_CST);                                  \
    }                                                                                                                       \
    int __tsan_atomic##BITS##_compare_exchange_weak(volatile T *a, T *c, T v, int, int)                                      \
    {                                                                                                                       \
        sx::acc((const void *)a, sizeof(T), 1);                                                                             \
        return __atomic_compare_exchange_n(a, c, v, 0, __ATOMIC_SEQ_CST, __ATOMIC_SEQ_CST);                                  \
    }                                                                                                                       \
    T __tsan_atomic##BITS##_compare_exchange_val(volatile T *a, T c, T v, int, int)                                          \
    {                                                                                                                       \
        sx::acc((const void *)a, sizeof(T), 1);                                                                             \
        __atomic_compare_exchange_n(a, &c, v, 0, __ATOMIC_SEQ_CST, __ATOMIC_SEQ_CST);                                        \
        return c;                                                                                                           \
    }
ATOM(8, unsigned char)
ATOM(16, unsigned short)
ATOM(32, unsigned int)
ATOM(64, unsigned long)
void __tsan_atomic_thread_fence(int) { __atomic_thread_fence(__ATOMIC_SEQ_CST); }
void __tsan_atomic_signal_fence(int) {}

// ---- libc functions referenced by body.o, renamed by objcopy to these logging wrappers
void *vfw_memcpy(void *d, const void *s, size_t n)
{
    sx::acc(s, n, 0);
    sx::acc(d, n, 1);
    return memcpy(d, s, n);
}
void *vfw_memmove(void *d, const void *s, size_t n)
{
    sx::acc(s, n, 0);
    sx::acc(d, n, 1);
    return memmove(d, s, n);
}
void *vfw_memset(void *d, int c, size_t n)
{
    sx::acc(d, n, 1);
    return memset(d, c, n);
}
int vfw_memcmp(const void *a, const void *b, size_t n)
{
    sx::acc(a, n, 0);
    sx::acc(b, n, 0);
    return memcmp(a, b, n);
}
int vfw_bcmp(const void *a, const void *b, size_t n)
{
    sx::acc(a, n, 0);
    sx::acc(b, n, 0);
    return memcmp(a, b, n);
}
void *vfw_memchr(const void *a, int c, size_t n)
{
    sx::acc(a, n, 0);
    return (void *)memchr(a, c, n);
}
size_t vfw_strlen(const char *s)
{
    size_t n = strlen(s);
    sx::acc(s, n + 1, 0);
    return n;
}
wchar_t *vfw_wmemcpy(wchar_t *d, const wchar_t *s, size_t n)
{
    sx::acc(s, n * sizeof(wchar_t), 0);
    sx::acc(d, n * sizeof(wchar_t), 1);
    return wmemcpy(d, s, n);
}
wchar_t *vfw_wmemmove(wchar_t *d, const wchar_t *s, size_t n)
{
    sx::acc(s, n * sizeof(wchar_t), 0);
    sx::acc(d, n * sizeof(wchar_t), 1);
    return wmemmove(d, s, n);
}
wchar_t *vfw_wmemset(wchar_t *d, wchar_t c, size_t n)
{
    sx::acc(d, n * sizeof(wchar_t), 1);
    return wmemset(d, c, n);
}
int vfw_wmemcmp(const wchar_t *a, const wchar_t *b, size_t n)
{
    sx::acc(a, n * sizeof(wchar_t), 0);
    sx::acc(b, n * sizeof(wchar_t), 0);
    return wmemcmp(a, b, n);
}
wchar_t *vfw_wmemchr(const wchar_t *a, wchar_t c, size_t n)
{
    sx::acc(a, n * sizeof(wchar_t), 0);
    return (wchar_t *)wmemchr(a, c, n);
}
size_t vfw_wcslen(const wchar_t *s)
{
    size_t n = wcslen(s);
    sx::acc(s, (n + 1) * sizeof(wchar_t), 0);
    return n;
}
// process-wide state kept inside libc: a call that changes it is a write to a location every thread shares, a call whose
// result depends on it is a read (so a library that switches the locale around a conversion races with every other
// conversion, whatever the locale was)
char g_tok_locale[8], g_tok_environ[8], g_tok_libc_static[8];
char *vfw_setlocale(int cat, const char *loc)
{
    sx::acc(g_tok_locale, 1, loc ? 1 : 0);
    if (loc) sx::acc(loc, strlen(loc) + 1, 0);
    return setlocale(cat, loc);
}
struct lconv *vfw_localeconv()
{
    sx::acc(g_tok_locale, 1, 0);
    return localeconv();
}
char *vfw_getenv(const char *n)
{
    sx::acc(g_tok_environ, 1, 0);
    return getenv(n);
}
int vfw_setenv(const char *n, const char *v, int o)
{
    sx::acc(g_tok_environ, 1, 1);
    return setenv(n, v, o);
}
int vfw_putenv(char *s)
{
    sx::acc(g_tok_environ, 1, 1);
    return putenv(s);
}
int vfw_unsetenv(const char *n)
{
    sx::acc(g_tok_environ, 1, 1);
    return unsetenv(n);
}
char *vfw_strtok(char *s, const char *d)
{
    sx::acc(g_tok_libc_static, 1, 1);
    return strtok(s, d);
}
int vfw_rand()
{
    sx::acc(g_tok_libc_static + 1, 1, 1);
    return rand();
}
void vfw_srand(unsigned v)
{
    sx::acc(g_tok_libc_static + 1, 1, 1);
    srand(v);
}
char *vfw_strerror(int e)
{
    sx::acc(g_tok_libc_static + 2, 1, 1);
    return strerror(e);
}
struct tm *vfw_localtime(const time_t *t)
{
    sx::acc(g_tok_libc_static + 3, 1, 1);
    return localtime(t);
}
struct tm *vfw_gmtime(const time_t *t)
{
    sx::acc(g_tok_libc_static + 3, 1, 1);
    return gmtime(t);
}
int vfw_snprintf(char *buf, size_t size, const char *fmt, ...)
{
    va_list ap;
    va_start(ap, fmt);
    int r = vsnprintf(buf, size, fmt, ap);
    va_end(ap);
    sx::acc(g_tok_locale, 1, 0);
    sx::acc(fmt, strlen(fmt) + 1, 0);
    if (size) sx::acc(buf, (size_t)r + 1 < size ? (size_t)r + 1 : size, 1);
    return r;
}
#define STRTO(NAME, T)                                  \
    T vfw_##NAME(const char *s, char **e, int base)     \
    {                                                   \
        sx::acc(s, strlen(s) + 1, 0);                   \
        char *ee;                                       \
        T r = NAME(s, &ee, base);                       \
        if (e) {                                        \
            sx::acc(e, sizeof *e, 1);                   \
            *e = ee;                                    \
        }                                               \
        return r;                                       \
    }
STRTO(strtol, long)
STRTO(strtoul, unsigned long)
STRTO(strtoll, long long)
STRTO(strtoull, unsigned long long)
double vfw_strtod(const char *s, char **e)
{
    sx::acc(g_tok_locale, 1, 0);
    sx::acc(s, strlen(s) + 1, 0);
    char *ee;
    double r = strtod(s, &ee);
    if (e) {
        sx::acc(e, sizeof *e, 1);
        *e = ee;
    }
    return r;
}
float vfw_strtof(const char *s, char **e)
{
    sx::acc(g_tok_locale, 1, 0);
    sx::acc(s, strlen(s) + 1, 0);
    char *ee;
    float r = strtof(s, &ee);
    if (e) {
        sx::acc(e, sizeof *e, 1);
        *e = ee;
    }
    return r;
}
}  // extern "C"

// ------------------------------------------------------------------------------------------------ allocation: per-thread arenas
static void *sx_alloc(size_t n)
{
    sx::Thread *t = sx::cur;
    if (!t) {
        void *p = malloc(n ? n : 1);
        if (!p) throw std::bad_alloc();
        return p;
    }
    size_t need = (n + 15) & ~size_t(15);
    if (t->bump + need > sx::ARENA) throw std::bad_alloc();
    void *p = t->arena + t->bump;
    t->bump += need;
    memset(p, 0xCD, n);
    return p;
}
static void sx_free(void *p)
{
    if (!p) return;
    for (int k = 0; k < sx::MAXT; ++k)
        if (sx::g_thr[k].arena && (char *)p >= sx::g_thr[k].arena && (char *)p < sx::g_thr[k].arena + sx::ARENA) return;  // arena memory: reclaimed by reset
    free(p);
}
void *operator new(size_t n) { return sx_alloc(n); }
void *operator new[](size_t n) { return sx_alloc(n); }
// Exception objects: the C++ runtime obtains them from malloc, whose addresses depend on what other threads did.
// Serving them from the throwing thread's arena keeps every address a thread touches a function of its own history.
// The runtime keeps its bookkeeping header directly in front of the object (128 bytes with this ABI); a generous
// zeroed 256-byte prefix covers it.
extern "C" void *__cxa_allocate_exception(size_t thrown) noexcept
{
    const size_t HDR = 256;
    char *p;
    try {
        p = (char *)sx_alloc(thrown + HDR);
    } catch (...) {
        abort();
    }
    memset(p, 0, thrown + HDR);
    return p + HDR;
}
extern "C" void __cxa_free_exception(void *obj) noexcept
{
    if (!obj) return;
    char *p = (char *)obj - 256;
    for (int k = 0; k < sx::MAXT; ++k)
        if (sx::g_thr[k].arena && p >= sx::g_thr[k].arena && p < sx::g_thr[k].arena + sx::ARENA) return;
    free(p);
}
void operator delete(void *p) noexcept { sx_free(p); }
void operator delete[](void *p) noexcept { sx_free(p); }
void operator delete(void *p, size_t) noexcept { sx_free(p); }
void operator delete[](void *p, size_t) noexcept { sx_free(p); }

// ------------------------------------------------------------------------------------------------ worker threads and controller
namespace sx {

static void *worker(void *arg)
{
    Thread *t = (Thread *)arg;
    cur = t;
    pthread_attr_t at;
    pthread_getattr_np(pthread_self(), &at);
    void *sa;
    size_t ss;
    pthread_attr_getstack(&at, &sa, &ss);
    pthread_attr_destroy(&at);
    t->stack_lo = (uintptr_t)sa;
    t->stack_hi = (uintptr_t)sa + ss;
    wait_turn(t->id);
    t->status = ST_RUNNING;
    for (t->pc = 0; t->pc < t->nops; ++t->pc) {
        char frame_marker;
        t->op_sp = (uintptr_t)&frame_marker;
        t->bump = 0;  // objects never outlive their operation: every operation starts on an empty arena
        t->trace[t->pc] = 0x243F6A8885A308D3ull;
        t->naccess[t->pc] = 0;
        t->npoints[t->pc] = 0;
        t->in_op = true;
        c20_run_op(t->program[t->pc], t->salt, g_shared, t->results[t->pc], RESCAP);
        t->in_op = false;
        if (t->pc + 1 < t->nops) yield_to_controller(ST_OPDONE);
    }
    t->status = ST_FINISHED;
    cur = nullptr;
    pass_to(-1);
    return nullptr;
}

struct Exec {
    int nthreads = 0;
    void start(int n, const int progs[][MAXOPS], const int *nops)
    {
        nthreads = n;
        g_turn = -1;
        for (int i = 0; i < n; ++i) {
            Thread &t = g_thr[i];
            t.id = i;
            t.salt = i;
            t.bump = 0;
            t.nlog = 0;
            t.log_overflow = false;
            t.in_op = false;
            t.points = 0;
            t.stop_at = ~0ull;
            t.status = ST_NEW;
            t.nops = nops[i];
            t.pc = 0;
            t.foreign = false;
            for (int k = 0; k < nops[i]; ++k) {
                t.program[k] = progs[i][k];
                t.results[k][0] = 0;
            }
            pthread_attr_t at;
            pthread_attr_init(&at);
            pthread_attr_setstacksize(&at, 1 << 20);
            if (pthread_create(&t.th, &at, worker, &t) != 0) {
                perror("pthread_create");
                _exit(2);
            }
            pthread_attr_destroy(&at);
        }
    }
    // let thread i run until it is preempted at its `stop_at`-th scheduling point (absolute), finishes an operation, or finishes
    int resume(int i, uint64_t stop_at = ~0ull)
    {
        Thread &t = g_thr[i];
        t.stop_at = stop_at;
        pass_to(i);
        wait_turn(-1);
        return t.status;
    }
    void finish()
    {
        for (int i = 0; i < nthreads; ++i) {
            while (g_thr[i].status != ST_FINISHED) resume(i);
            pthread_join(g_thr[i].th, nullptr);
        }
    }
};

static void init_threads()
{
    for (int i = 0; i < MAXT; ++i) {
        Thread &t = g_thr[i];
        t.arena = (char *)mmap(nullptr, ARENA, PROT_READ | PROT_WRITE, MAP_PRIVATE | MAP_ANONYMOUS, -1, 0);
        t.log = (Access *)malloc(sizeof(Access) * LOGCAP);
        for (int k = 0; k < MAXOPS; ++k) t.results[k] = (char *)malloc(RESCAP);
    }
}

}  // namespace sx

// ------------------------------------------------------------------------------------------------ shared objects and statics
static C20Shared *g_sh = nullptr;
static std::string g_sh_image;  // bytes of the shared objects (struct + heap blocks) as built

static std::string shared_image()
{
    static char buf[1 << 16];
    size_t n = c20_shared_image(g_sh, buf, sizeof buf);
    return std::string(buf, n);
}

struct StaticSym {
    std::string name;
    uintptr_t addr;
    size_t size;
    std::string image;
    std::string initial;      // bytes before any library operation ran in this process
    bool restorable = false;  // plain static (constant initialiser, no guard variable): put back before every execution
};
static std::vector<StaticSym> g_statics;  // writable static storage defined by the instrumented (library) TU
static std::string g_exe_dir;

static std::string dirname_of(const std::string &p)
{
    size_t s = p.rfind('/');
    return s == std::string::npos ? "." : p.substr(0, s);
}

static std::vector<std::string> run_lines(const std::string &cmd)
{
    std::vector<std::string> out;
    FILE *p = popen(cmd.c_str(), "r");
    if (!p) _exit(2);
    char line[16384];
    while (fgets(line, sizeof line, p)) out.push_back(line);
    pclose(p);
    return out;
}

static void load_statics()
{
    // names: OBJECT symbols of body.o that live in a writable, non-TLS section (.data*, .bss*, including the COMDAT
    // sections of statics inside inline functions); addresses: the same names in this (non-PIE) executable
    char self[4096];
    ssize_t n = readlink("/proc/self/exe", self, sizeof self - 1);
    if (n <= 0) _exit(2);
    self[n] = 0;
    g_exe_dir = dirname_of(self);
    std::set<int> wsec;
    for (auto &l : run_lines("readelf -SW '" + g_exe_dir + "/body.o' 2>/dev/null")) {
        // "  [12] .bss._ZZ...  NOBITS  0000 000040 000100 00 WAG 0 0 16"
        size_t lb = l.find('['), rb = l.find(']');
        if (lb == std::string::npos || rb == std::string::npos) continue;
        int idx = atoi(l.c_str() + lb + 1);
        char name[4096], type[64], addr[64], off[64], size[64], es[64], flags[64];
        if (sscanf(l.c_str() + rb + 1, "%4095s %63s %63s %63s %63s %63s %63s", name, type, addr, off, size, es, flags) != 7) continue;
        bool writable = strchr(flags, 'W') && !strchr(flags, 'T');
        std::string nm = name;
        if (writable && (nm.compare(0, 5, ".data") == 0 || nm.compare(0, 4, ".bss") == 0)) wsec.insert(idx);
    }
    std::set<std::string> names;
    for (auto &l : run_lines("readelf -sW '" + g_exe_dir + "/body.o' 2>/dev/null")) {
        // "   Num:    Value          Size Type    Bind   Vis      Ndx Name"
        char num[32], val[64], size[64], type[32], bind[32], vis[32], ndx[32], name[8000];
        if (sscanf(l.c_str(), "%31s %63s %63s %31s %31s %31s %31s %7999s", num, val, size, type, bind, vis, ndx, name) != 8) continue;
        if (strcmp(type, "OBJECT") != 0) continue;
        if (!isdigit((unsigned char)ndx[0]) || !wsec.count(atoi(ndx))) continue;
        names.insert(name);
    }
    for (auto &l : run_lines(std::string("readelf -sW '") + self + "' 2>/dev/null")) {
        char num[32], val[64], size[64], type[32], bind[32], vis[32], ndx[32], name[8000];
        if (sscanf(l.c_str(), "%31s %63s %63s %31s %31s %31s %31s %7999s", num, val, size, type, bind, vis, ndx, name) != 8) continue;
        if (strcmp(type, "OBJECT") != 0 || !names.count(name)) continue;
        std::string mangled = name;
        // not library state: the harness' own table, C++ runtime bookkeeping of the TU
        if (mangled.find("OP_NAMES") != std::string::npos) continue;
        if (mangled.find("__tsan") != std::string::npos || mangled.find("__ioinit") != std::string::npos) continue;
        bool dup = false;
        for (auto &g : g_statics) dup = dup || g.name == mangled;
        if (dup) continue;
        StaticSym s;
        s.name = mangled;
        s.addr = strtoull(val, nullptr, 16);
        s.size = strtoull(size, nullptr, 10);
        if (!s.size) s.size = 1;
        g_statics.push_back(s);
    }
    for (auto &s : g_statics) {
        s.image.assign((const char *)s.addr, s.size);
        s.initial = s.image;
        // a static with a dynamic initialiser has a guard variable (_ZGV<name>); re-running its initialiser is not ours to do,
        // so it and its guard keep whatever the warm-up left.  Everything else is plain data with a link-time value.
        bool is_guard = s.name.compare(0, 4, "_ZGV") == 0, guarded = false;
        for (auto &g : g_statics) guarded = guarded || g.name == "_ZGV" + s.name.substr(2);
        s.restorable = !is_guard && !guarded;
    }
}

// Every execution (main-thread reference, solo reference, interleaving) starts from the library's link-time static state.
// Without this a cache or a high-water mark kept in a plain static is written once during the warm-up and only read
// afterwards, and the concurrent executions - which are the ones under test - would never see the write.
static void restore_statics()
{
    for (auto &s : g_statics)
        if (s.restorable) {
            memcpy((void *)s.addr, s.initial.data(), s.size);
            s.image = s.initial;
        }
}

static std::string demangled(const std::string &m)
{
    std::string cmd = "c++filt '" + m + "' 2>/dev/null";
    FILE *p = popen(cmd.c_str(), "r");
    if (!p) return m;
    char line[4096];
    std::string o = m;
    if (fgets(line, sizeof line, p)) {
        o = line;
        while (!o.empty() && o.back() == '\n') o.pop_back();
    }
    pclose(p);
    return o;
}

static const StaticSym *static_at(uintptr_t a)
{
    for (auto &s : g_statics)
        if (a >= s.addr && a < s.addr + s.size) return &s;
    return nullptr;
}

// ------------------------------------------------------------------------------------------------ solo references
struct Solo {
    bool have = false;
    std::string result;
    uint64_t trace = 0, naccess = 0, npoints = 0;
};
static Solo g_solo[64][sx::MAXT];  // [op][salt]

static void run_solo(int op, int salt)
{
    Solo &s = g_solo[op][salt];
    if (s.have) return;
    // run on thread slot `salt` so that the thread-dependent inputs match
    int progs[sx::MAXT][sx::MAXOPS] = {{0}};
    int nops[sx::MAXT] = {0, 0, 0};
    for (int i = 0; i <= salt; ++i) {
        progs[i][0] = op;
        nops[i] = i == salt ? 1 : 0;
    }
    // The reference is a solo run that a further solo run reproduces exactly (result and access trace): the first call of
    // an operation may legitimately differ from later ones (one-time initialisation inside libstdc++, lazily built
    // tables), so up to 4 warm-up runs are allowed before the machinery gives up.
    for (int attempt = 0; attempt < 5; ++attempt) {
        restore_statics();
        sx::Exec e;
        e.start(salt + 1, progs, nops);
        e.finish();
        sx::Thread &t = sx::g_thr[salt];
        bool same = s.have && s.result == t.results[0] && s.trace == t.trace[0];
        s.result = t.results[0];
        s.trace = t.trace[0];
        s.naccess = t.naccess[0];
        s.npoints = t.npoints[0];
        s.have = true;
        if (same) return;
    }
    fprintf(stderr, "schedx: solo runs of op %d (%s) never became reproducible\n", op, c20_op_name(op));
    _exit(2);
}

// ------------------------------------------------------------------------------------------------ one execution = programs + schedule
struct Program {
    int n = 0;
    int progs[sx::MAXT][sx::MAXOPS];
    int nops[sx::MAXT];
    std::string str() const
    {
        std::string s;
        for (int i = 0; i < n; ++i) {
            s += strf("%sT%d:[", i ? " || " : "", i);
            for (int k = 0; k < nops[i]; ++k) s += strf("%s%s", k ? " ; " : "", c20_op_name(progs[i][k]));
            s += "]";
        }
        return s;
    }
};

// schedule: sequence of (thread, stop) steps; stop = relative number of scheduling points to run before preempting (0 = until
// the operation/program ends)
struct Step {
    int thread;
    uint64_t after_points;
};

static std::string sched_str(const std::vector<Step> &sch)
{
    std::string s;
    for (auto &st : sch) s += strf("%sT%d%s", s.empty() ? "" : ",", st.thread, st.after_points ? strf("@%llu", (unsigned long long)st.after_points).c_str() : "");
    return s;
}

static uint64_t g_execs = 0, g_accesses = 0, g_shared_accesses = 0, g_points = 0;

// runs the schedule (then lets every thread finish in id order) and checks every oracle; returns false when it reported
static bool run_and_check(Ctx &c, const Program &P, const std::vector<Step> &sch, const char *kind)
{
    restore_statics();
    sx::Exec e;
    e.start(P.n, P.progs, P.nops);
    for (auto &st : sch) {
        sx::Thread &t = sx::g_thr[st.thread];
        if (t.status == sx::ST_FINISHED) continue;
        e.resume(st.thread, st.after_points ? t.points + st.after_points : ~0ull);
    }
    e.finish();
    ++g_execs;
    bool ok = true;
    auto where = [&]() { return strf("%s ; schedule [%s] (%s)", P.str().c_str(), sched_str(sch).c_str(), kind); };
    for (int i = 0; i < P.n; ++i) {
        sx::Thread &t = sx::g_thr[i];
        if (t.log_overflow) {
            fprintf(stderr, "schedx: access log overflow\n");
            _exit(2);
        }
        g_shared_accesses += t.nlog;
        for (int k = 0; k < P.nops[i]; ++k) {
            const Solo &s = g_solo[P.progs[i][k]][i];
            g_accesses += t.naccess[k];
            g_points += t.npoints[k];
            VF_COUNT("validated");
            if (s.result != t.results[k]) {
                c.fail(strf("c20:result-differs-from-solo:%s", c20_op_name(P.progs[i][k])),
                       strf("%s: thread %d got %s, alone it gets %s", where().c_str(), i, vf::vis(t.results[k], strlen(t.results[k]), 160).c_str(),
                            vf::vis(s.result, 160).c_str()));
                ok = false;
            } else if (s.trace != t.trace[k] || s.naccess != t.naccess[k]) {
                c.fail(strf("c20:access-trace-differs-from-solo:%s", c20_op_name(P.progs[i][k])),
                       strf("%s: thread %d made %llu accesses (alone %llu) with a different address/size sequence: its execution was influenced "
                            "by another thread",
                            where().c_str(), i, (unsigned long long)t.naccess[k], (unsigned long long)s.naccess));
                ok = false;
            }
        }
        if (t.foreign) {
            c.fail("c20:thread-touches-memory-owned-by-another-thread", where() + ": " + t.foreign_msg);
            ok = false;
        }
    }
    // conflicting accesses to non-private memory
    for (int i = 0; i < P.n && ok; ++i)
        for (int j = i + 1; j < P.n && ok; ++j) {
            sx::Thread &a = sx::g_thr[i], &b = sx::g_thr[j];
            for (uint32_t x = 0; x < a.nlog && ok; ++x)
                for (uint32_t y = 0; y < b.nlog; ++y) {
                    const sx::Access &p = a.log[x], &q = b.log[y];
                    if (!(p.w || q.w)) continue;
                    if (p.a < q.a + q.n && q.a < p.a + p.n) {
                        const StaticSym *ss = static_at(p.a);
                        const char *tok = p.a >= (uintptr_t)g_tok_locale && p.a < (uintptr_t)g_tok_locale + 8     ? "process-locale(setlocale)"
                                          : p.a >= (uintptr_t)g_tok_environ && p.a < (uintptr_t)g_tok_environ + 8 ? "process-environment(setenv)"
                                          : p.a >= (uintptr_t)g_tok_libc_static && p.a < (uintptr_t)g_tok_libc_static + 8 ? "libc-internal-static(strtok/rand/strerror/localtime)"
                                                                                                                   : nullptr;
                        std::string what = ss ? "library static " + demangled(ss->name) : tok ? std::string(tok) : strf("address %p", (void *)p.a);
                        c.fail(strf("c20:data-race:%s", ss ? demangled(ss->name).c_str() : tok ? tok : "shared-memory"),
                               strf("%s: thread %d %s and thread %d %s %s without synchronisation", where().c_str(), i, p.w ? "writes" : "reads", j,
                                    q.w ? "writes" : "reads", what.c_str()));
                        ok = false;
                        break;
                    }
                }
        }
    // shared objects and library statics must be byte-identical afterwards (catches writers the instrumentation cannot see)
    if (shared_image() != g_sh_image) {
        c.fail("c20:shared-object-modified", where() + ": a const operation changed a shared string/buffer");
        g_sh_image = shared_image();
        ok = false;
    }
    // a library static whose bytes changed is not by itself a violation (it could be properly synchronised or written by one
    // thread only); it is counted for the evidence, the verdict comes from the conflict check above
    for (auto &s : g_statics)
        if (memcmp((const void *)s.addr, s.image.data(), s.size) != 0) {
            VF_COUNT("executions-in-which-a-library-static-changed");
            s.image.assign((const char *)s.addr, s.size);
        }
    return ok;
}

// all operation-level interleavings of the program (threads hand over only between operations)
static void op_level(const Program &P, std::vector<int> &left, std::vector<Step> &cur, std::vector<std::vector<Step>> &out)
{
    bool any = false;
    for (int i = 0; i < P.n; ++i)
        if (left[i]) {
            any = true;
            --left[i];
            cur.push_back(Step{i, 0});
            op_level(P, left, cur, out);
            cur.pop_back();
            ++left[i];
        }
    if (!any) out.push_back(cur);
}

// results of every operation executed on the main thread before any worker thread existed: an operation's result may
// depend on its arguments only, not on which thread runs it (state cached per thread behind a process-wide flag, ...)
static std::string g_main_result[64][sx::MAXT];
static void main_thread_references()
{
    std::vector<char> buf(sx::RESCAP);
    for (int op = 0; op < c20_num_ops(); ++op)
        for (int salt = 0; salt < sx::MAXT; ++salt)
            for (int rep = 0; rep < 2; ++rep) {  // twice: the second call is past any one-time initialisation
                if (rep == 0) restore_statics();
                c20_run_op(op, salt, sx::g_shared, buf.data(), buf.size());
                g_main_result[op][salt] = buf.data();
            }
}

static void explore_program(Ctx &c, const Program &P, unsigned bound)
{
    for (int i = 0; i < P.n; ++i)
        for (int k = 0; k < P.nops[i]; ++k) {
            run_solo(P.progs[i][k], i);
            VF_COUNT("validated");
            if (g_solo[P.progs[i][k]][i].result != g_main_result[P.progs[i][k]][i]) {
                c.fail(strf("c20:result-depends-on-the-thread:%s", c20_op_name(P.progs[i][k])),
                       strf("%s run alone on a worker thread returns %s, on the main thread (same arguments) %s", c20_op_name(P.progs[i][k]),
                            vf::vis(g_solo[P.progs[i][k]][i].result, 160).c_str(), vf::vis(g_main_result[P.progs[i][k]][i], 160).c_str()));
                return;
            }
        }
    // (1) operation-level interleavings
    std::vector<int> left(P.n);
    for (int i = 0; i < P.n; ++i) left[i] = P.nops[i];
    std::vector<std::vector<Step>> scheds;
    std::vector<Step> cur;
    op_level(P, left, cur, scheds);
    for (auto &s : scheds) {
        VF_COUNT("ops");
        if (!run_and_check(c, P, s, "operation-level interleaving")) return;
    }
    if (bound == 0) return;
    // (2) one preemption at every function entry of every thread's first operation, every other thread order afterwards;
    //     bound 2 additionally preempts the thread that was switched to
    for (int i = 0; i < P.n; ++i) {
        uint64_t ni = g_solo[P.progs[i][0]][i].npoints;
        for (uint64_t k = 1; k <= ni; ++k) {
            for (int j = 0; j < P.n; ++j) {
                if (j == i) continue;
                if (bound == 1) {
                    std::vector<Step> s = {Step{i, k}, Step{j, 0}};
                    if (P.nops[j] > 1) s.push_back(Step{j, 0});
                    VF_COUNT("ops");
                    if (!run_and_check(c, P, s, "one preemption")) return;
                } else {
                    uint64_t nj = g_solo[P.progs[j][0]][j].npoints;
                    for (uint64_t m = 1; m <= nj; ++m) {
                        // T_i runs k points, T_j runs m points, T_i finishes its operation, then everything else
                        std::vector<Step> s = {Step{i, k}, Step{j, m}, Step{i, 0}};
                        VF_COUNT("ops");
                        if (!run_and_check(c, P, s, "two preemptions")) return;
                    }
                }
            }
        }
    }
}

// ------------------------------------------------------------------------------------------------ plan
static const int CORE[8] = {19, 18, 14, 9, 5, 6, 25, 27};  // format-double, format-int, from_int, to_utf16, replace, split, base64_encode, stream

static void flush_counts()
{
    VF_ADD("executions", g_execs);
    VF_ADD("instrumented-accesses", g_accesses);
    VF_ADD("shared-accesses-logged", g_shared_accesses);
    VF_ADD("scheduling-points", g_points);
    g_execs = g_accesses = g_shared_accesses = g_points = 0;
}

static void build(vf::Plan &plan, const vf::Opts &o)
{
    load_statics();  // before any library code runs: the images taken here are the link-time values
    sx::init_threads();
    g_sh = c20_make_shared();  // built by (instrumented) library code while no worker thread exists
    sx::g_shared = g_sh;
    main_thread_references();
    g_sh_image = shared_image();
    const int NOPS = c20_num_ops();
    {
        std::string names;
        for (auto &s : g_statics) names += (names.empty() ? "" : "; ") + demangled(s.name) + strf(" (%zu bytes)", s.size);
        plan.assumptions.push_back(strf("writable static storage defined by the library translation unit (nm on body.o): %s",
                                        g_statics.empty() ? "none" : names.c_str()));
    }
    plan.assumptions.push_back("scheduling points are function entries of instrumented code; finer interleavings are covered by the conflict check: "
                               "threads whose non-private accesses never conflict commute at every finer granularity");
    plan.assumptions.push_back("memory touched only inside uninstrumented libstdc++/libc functions that are not wrapped (locale, iostream internals) is "
                               "visible only through the byte-image comparison of shared objects and library statics");
    plan.assumptions.push_back("weak-memory effects are out of scope: the library contains no atomics, so any conflicting access is already a violation");
    plan.rule = "case = one thread program (which operation each thread runs); every operation-level interleaving and every single-preemption "
                "schedule of it is executed; non-trivial = at least two threads read the same shared object";
    bool T = o.thorough();
    plan.stage(strf("2 threads x 1 operation: all %d^2 ordered pairs, all interleavings, preemption at every function entry", NOPS), (uint64_t)NOPS * NOPS,
               [NOPS](uint64_t i, Ctx &c) {
                   Program P;
                   P.n = 2;
                   P.progs[0][0] = (int)(i / NOPS);
                   P.progs[1][0] = (int)(i % NOPS);
                   P.nops[0] = P.nops[1] = 1;
                   explore_program(c, P, 1);
                   c.nontrivial();
                   flush_counts();
               },
               [NOPS](uint64_t i) { return strf("T0:[%s] || T1:[%s]", c20_op_name((int)(i / NOPS)), c20_op_name((int)(i % NOPS))); })
        .case_timeout_s = 120;
    plan.stage("2 threads x 2 operations over the 8-operation core: all 4096 programs, all 6 operation-level interleavings + preemptions", 4096,
               [](uint64_t i, Ctx &c) {
                   Program P;
                   P.n = 2;
                   P.progs[0][0] = CORE[vf::take(i, 8)];
                   P.progs[0][1] = CORE[vf::take(i, 8)];
                   P.progs[1][0] = CORE[vf::take(i, 8)];
                   P.progs[1][1] = CORE[vf::take(i, 8)];
                   P.nops[0] = P.nops[1] = 2;
                   explore_program(c, P, 1);
                   c.nontrivial();
                   flush_counts();
               },
               [](uint64_t i) {
                   int a = CORE[vf::take(i, 8)], b = CORE[vf::take(i, 8)], cc = CORE[vf::take(i, 8)], d = CORE[vf::take(i, 8)];
                   return strf("T0:[%s ; %s] || T1:[%s ; %s]", c20_op_name(a), c20_op_name(b), c20_op_name(cc), c20_op_name(d));
               })
        .case_timeout_s = 120;
    plan.stage("3 threads x 1 operation over the core: all 512 programs, all 6 orders + preemptions", 512,
               [](uint64_t i, Ctx &c) {
                   Program P;
                   P.n = 3;
                   for (int k = 0; k < 3; ++k) {
                       P.progs[k][0] = CORE[vf::take(i, 8)];
                       P.nops[k] = 1;
                   }
                   explore_program(c, P, 1);
                   c.nontrivial();
                   flush_counts();
               },
               [](uint64_t i) {
                   int a = CORE[vf::take(i, 8)], b = CORE[vf::take(i, 8)], cc = CORE[vf::take(i, 8)];
                   return strf("T0:[%s] || T1:[%s] || T2:[%s]", c20_op_name(a), c20_op_name(b), c20_op_name(cc));
               })
        .case_timeout_s = 120;
    if (T)
        plan.stage("2 threads x 1 operation over the core, two preemptions (every pair of function entries)", 64,
                   [](uint64_t i, Ctx &c) {
                       Program P;
                       P.n = 2;
                       P.progs[0][0] = CORE[vf::take(i, 8)];
                       P.progs[1][0] = CORE[vf::take(i, 8)];
                       P.nops[0] = P.nops[1] = 1;
                       explore_program(c, P, 2);
                       c.nontrivial();
                       flush_counts();
                   },
                   [](uint64_t i) {
                       int a = CORE[vf::take(i, 8)], b = CORE[vf::take(i, 8)];
                       return strf("T0:[%s] || T1:[%s] (bound 2)", c20_op_name(a), c20_op_name(b));
                   })
            .case_timeout_s = 600;
}

VF_MAIN("C20", build)
