// objects shared (read-only) between the threads of one execution
#pragma once
#include "st_string.h"
struct C20Shared {
    ST::string s_short, s_long, s_num, s_hexnum, s_dbl, s_hex, s_b64;
    ST::char_buffer cb;
    // one function object of each kind, used by every thread (as the members of one shared const container would be)
    ST::hash fn_hash;
    ST::hash_i fn_hash_i;
    ST::less_i fn_less_i;
    ST::equal_i fn_equal_i;
};
