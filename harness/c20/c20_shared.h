// objects shared (read-only) between the threads of one execution
#pragma once
#include "st_string.h"
struct C20Shared {
    ST::string s_short, s_long, s_num, s_hexnum, s_dbl, s_hex, s_b64;
    ST::char_buffer cb;
};
