// C03 - conversions are total and memory-safe on arbitrary input.
// Same unit-sequence enumeration as C02, each input bare and behind a 16-unit ASCII prefix
// (so that results live on the heap, where an unwritten unit shows up as a dependence on the
// allocator's fill pattern and an overrun hits the block's canary), plus every truncation of
// well-formed text, the empty input and (nullptr, 0).  Inputs sit against a PROT_NONE page.
#define UTF_PROP 3
#include "utf_harness.h"

static void add_both(vf::Plan &plan, const std::string &name, ref::Enc senc, const std::vector<uint32_t> &alpha, unsigned L, bool exact,
                     RunOpts ro)
{
    add_seq_stage(plan, name, senc, alpha, L, exact, ro);
    ro.heap_prefix = true;
    add_seq_stage(plan, name + " behind 16-unit prefix", senc, alpha, L, exact, ro, ascii_prefix(16));
}

static void build(vf::Plan &plan, const vf::Opts &o)
{
    selftest();
    plan.rule = "cases = distinct unit sequences; non-trivial = input contains at least one malformed unit, or the result is "
                "heap-allocated (prefixed inputs)";
    plan.assumptions = {"a read outside the input is detected by the guard page directly after it (and by ASan in the thorough tier); "
                        "reads before the input are only visible to ASan",
                        "writes outside a heap result are detected by the allocator's tail canary (and ASan); outside an in-object "
                        "result only by ASan",
                        "reference size for assume_valid is the substitute_invalid size (the measuring pass is mode-independent)"};
    RunOpts all, prim;
    prim.primary_only = true;
    // the ASan+UBSan build of the thorough tier runs the quick bounds (~8x slower per case); the plain build the large ones
#ifdef VF_ASAN
    bool T = false;
    (void)o;
#else
    bool T = o.thorough();
#endif
    add_both(plan, strf("utf8: A8^<=%u all routes", T ? 5u : 4u), ref::E8, A8, T ? 5 : 4, false, all);
    add_seq_stage(plan, strf("utf8: A8^%u primary routes", T ? 6u : 5u), ref::E8, A8, T ? 6 : 5, true, prim);
    if (T) add_seq_stage(plan, "utf8: core^8 primary routes", ref::E8, A8CORE, 8, true, prim);
    plan.stage("utf8: all 256^2 byte pairs, primary routes", 65536,
               [=](uint64_t i, Ctx &c) { run_case(c, ref::E8, U32V{(uint32_t)(i / 256), (uint32_t)(i % 256)}, prim); },
               [](uint64_t i) { return show_units(ref::E8, U32V{(uint32_t)(i / 256), (uint32_t)(i % 256)}); });
    add_both(plan, strf("utf16: A16^<=%u all routes", T ? 5u : 4u), ref::E16, A16, T ? 5 : 4, false, all);
    add_seq_stage(plan, strf("utf16: A16^%u primary routes", T ? 6u : 5u), ref::E16, A16, T ? 6 : 5, true, prim);
    plan.stage("utf16: every 16-bit unit alone / before / after a surrogate, primary routes", 65536 * 3,
               [=](uint64_t i, Ctx &c) {
                   uint32_t u = (uint32_t)(i % 65536);
                   unsigned k = (unsigned)(i / 65536);
                   run_case(c, ref::E16, k == 0 ? U32V{u} : k == 1 ? U32V{u, 0xDC00} : U32V{0xD800, u}, prim);
               },
               [](uint64_t i) { return strf("unit %04X in context %u", (unsigned)(i % 65536), (unsigned)(i / 65536)); });
    add_both(plan, strf("utf32: A32^<=%u all routes", T ? 5u : 4u), ref::E32, A32, T ? 5 : 4, false, all);
    // truncations of well-formed text: every prefix of every encoding of every sequence in B^<=3
    {
        unsigned L = T ? 4 : 3;
        plan.stage(strf("every truncation of every encoding of B^<=%u, all routes", L), vf::seq_count(B.size(), L),
                   [=](uint64_t i, Ctx &c) {
                       U32V cps, units;
                       seq_from(i, B, L, cps);
                       for (ref::Enc e : {ref::E8, ref::E16, ref::E32}) {
                           encode_cps(cps, e, units);
                           for (size_t cut = 0; cut <= units.size(); ++cut) run_case(c, e, U32V(units.begin(), units.begin() + cut), all);
                       }
                   },
                   [=](uint64_t i) {
                       U32V cps;
                       seq_from(i, B, L, cps);
                       std::string s = "all prefixes of the encodings of";
                       for (uint32_t v : cps) s += strf(" U+%04X", v);
                       return s;
                   });
    }
    // (nullptr, 0) through every pointer+size route
    plan.stage("null pointer with zero length, every pointer+size entry point", 1,
               [](uint64_t, Ctx &c) {
                   static const ST::utf_validation_t M[3] = {ST::assume_valid, ST::substitute_invalid, ST::check_validity};
                   for (int m = 0; m < 3; ++m) {
                       vf::Outcome oc = vf::guard([&] {
                           size_t total = 0;
                           const char *n8 = nullptr;
                           const char16_t *n16 = nullptr;
                           const char32_t *n32 = nullptr;
                           const wchar_t *nw = nullptr;
                           total += ST::utf8_to_utf16(n8, 0, M[m]).size() + ST::utf8_to_utf32(n8, 0, M[m]).size() +
                                    ST::utf8_to_wchar(n8, 0, M[m]).size() + ST::utf8_to_latin_1(n8, 0, M[m]).size();
                           total += ST::utf16_to_utf8(n16, 0, M[m]).size() + ST::utf16_to_utf32(n16, 0, M[m]).size() +
                                    ST::utf16_to_wchar(n16, 0, M[m]).size() + ST::utf16_to_latin_1(n16, 0, M[m]).size();
                           total += ST::utf32_to_utf8(n32, 0, M[m]).size() + ST::utf32_to_utf16(n32, 0, M[m]).size() +
                                    ST::utf32_to_wchar(n32, 0, M[m]).size() + ST::utf32_to_latin_1(n32, 0, M[m]).size();
                           total += ST::wchar_to_utf8(nw, 0, M[m]).size() + ST::wchar_to_utf16(nw, 0, M[m]).size() +
                                    ST::wchar_to_utf32(nw, 0, M[m]).size() + ST::wchar_to_latin_1(nw, 0, M[m]).size();
                           total += ST::latin_1_to_utf8(n8, 0).size() + ST::latin_1_to_utf16(n8, 0).size() +
                                    ST::latin_1_to_utf32(n8, 0).size() + ST::latin_1_to_wchar(n8, 0).size();
                           total += ST::string(n8, 0, M[m]).size() + ST::string(n16, 0, M[m]).size() + ST::string(n32, 0, M[m]).size() +
                                    ST::string(nw, 0, M[m]).size() + ST::string(n8).size() + ST::string(n16).size() +
                                    ST::string(n32).size() + ST::string(nw).size();
                           total += ST::string::from_utf8(n8, 0, M[m]).size() + ST::string::from_utf16(n16, 0, M[m]).size() +
                                    ST::string::from_utf32(n32, 0, M[m]).size() + ST::string::from_wchar(nw, 0, M[m]).size() +
                                    ST::string::from_latin_1(n8, 0).size() + ST::string::from_utf8(n8).size() +
                                    ST::string::from_latin_1(n8).size();
                           ST::string s("x");
                           s.set(n8, 0, M[m]);
                           total += s.size();
                           s = "x";
                           s.set(n16, 0, M[m]);
                           total += s.size();
                           s = "x";
                           s = n8;
                           total += s.size();
                           VF_ADD("ops", 45);
                           if (total != 0) c.fail("c03:null-input:non-empty-result", strf("%zu units came out of null inputs", total));
                       });
                       VF_COUNT("validated");
                       if (!oc.ok()) c.fail(strf("c03:null-input:%s:%s", vf::outkind_name(oc.kind), oc.what.c_str()), oc.str());
                   }
                   c.nontrivial();
               },
               [](uint64_t) { return std::string("(nullptr, 0) in every mode"); });
}

VF_MAIN("C03", build)
