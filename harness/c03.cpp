// C03 - conversions are total and memory-safe on arbitrary input.
// Same unit-sequence enumeration as C02, each input bare and behind a 16-unit ASCII prefix
// (so that results live on the heap, where an unwritten unit shows up as a dependence on the
// allocator's fill pattern and an overrun hits the block's canary), plus every truncation of
// well-formed text, the empty input and (nullptr, 0).  Inputs sit against a PROT_NONE page.
#define UTF_PROP 3
#include "utf_harness.h"

static void add_both(vf::Plan &plan, const std::string &name, ref::Enc senc, const std::vector<uint32_t> &alpha, unsigned L, bool exact,
                     RunOpts ro)
{
    add_seq_stage(plan, name, senc, alpha, L, exact, ro);
    ro.heap_prefix = true;
    add_seq_stage(plan, name + " behind 16-unit prefix", senc, alpha, L, exact, ro, ascii_prefix(16));
}


// ---------------------------------------------------------------------------------------------- very large inputs
// "every input of fewer than 256 Mi code units": uniform inputs whose *result* reaches or passes 256 MiB / 256 Mi units
// while the input stays below the limit (the place where a size check on the wrong quantity would strike), and the
// largest legal input of each width.  One conversion per case; input and result are checked at 4,096 sample positions
// plus both ends.
struct HugeCase {
    const char *name;
    int route;       // 0 l1->8, 1 16->8, 2 32->8, 3 8->16, 4 8->32, 5 l1->16, 6 l1->32, 7 16->32, 8 32->16, 9 8->l1, 10 w->8, 11 8->w
    uint32_t cp;     // every input unit encodes this scalar value
    uint64_t n_cps;  // number of scalar values
    bool thorough_only;
};
static const uint64_t MI = 1ull << 20;
static const HugeCase HUGE_CASES[] = {
    {"latin_1_to_utf8: 128 Mi bytes E9 (result exactly 256 MiB)", 0, 0xE9, 128 * MI, false},
    {"latin_1_to_utf8: 128 Mi - 1 bytes E9", 0, 0xE9, 128 * MI - 1, false},
    {"utf16_to_utf8: 85.4 Mi units U+20AC (result just past 256 MiB)", 1, 0x20AC, 0x5555556, false},
    {"utf32_to_utf8: 64 Mi units U+1F600 (result exactly 256 MiB)", 2, 0x1F600, 64 * MI, false},
    {"utf8_to_utf16: 256 Mi - 1 ASCII bytes (largest legal input)", 3, 0x41, 256 * MI - 1, false},
    {"utf8_to_latin_1: 256 Mi - 2 bytes of U+00E9", 9, 0xE9, 128 * MI - 1, false},
    {"utf8_to_utf32: 256 Mi - 1 ASCII bytes", 4, 0x41, 256 * MI - 1, true},
    {"latin_1_to_utf16: 256 Mi - 1 bytes", 5, 0xE9, 256 * MI - 1, true},
    {"latin_1_to_utf32: 256 Mi - 1 bytes", 6, 0xE9, 256 * MI - 1, true},
    {"utf16_to_utf32: 256 Mi - 1 units", 7, 0x20AC, 256 * MI - 1, true},
    {"utf32_to_utf16: 128 Mi units U+1F600 (result 256 Mi units)", 8, 0x1F600, 128 * MI, true},
    {"utf32_to_utf8: 256 Mi - 1 units U+0041", 2, 0x41, 256 * MI - 1, true},
    {"utf16_to_utf8: 256 Mi - 1 units U+00E9 (result 512 MiB)", 1, 0xE9, 256 * MI - 1, true},
    {"wchar_to_utf8: 64 Mi units U+1F600", 10, 0x1F600, 64 * MI, true},
    {"utf8_to_wchar: 256 Mi - 4 bytes of U+1F600", 11, 0x1F600, 64 * MI - 1, true},
};
template <class T>
static T *huge_map(uint64_t n)
{
    void *p = mmap(nullptr, (n + 1) * sizeof(T), PROT_READ | PROT_WRITE, MAP_PRIVATE | MAP_ANONYMOUS | MAP_NORESERVE, -1, 0);
    if (p == MAP_FAILED) {
        perror("mmap(huge input)");
        _exit(2);
    }
    return (T *)p;
}
template <class T, class R>
static std::string huge_compare(const ST::buffer<T> &got, const R &unit_at, uint64_t want_units)
{
    if (got.size() != want_units) return strf("size() is %zu, the reference transcoding has %llu units", got.size(), (unsigned long long)want_units);
    if (got.data()[got.size()] != 0) return "no terminating NUL";
    auto bad = [&](uint64_t i) { return (uint32_t)(typename std::make_unsigned<T>::type)got.data()[i] != unit_at(i); };
    for (uint64_t k = 0; k < 4096 && k < want_units; ++k) {
        uint64_t i = k < 64 ? k : k < 128 ? want_units - 1 - (k - 64) : (want_units / 4096) * k + (k % 7);
        if (i >= want_units) continue;
        if (bad(i)) return strf("unit %llu differs from the reference transcoding", (unsigned long long)i);
    }
    return "";
}
static void run_huge(Ctx &c, const HugeCase &h)
{
    U32V one8, one16;
    encode_cps(U32V{h.cp}, ref::E8, one8);
    encode_cps(U32V{h.cp}, ref::E16, one16);
    const uint64_t n = h.n_cps, k8 = one8.size(), k16 = one16.size();
    std::string problem;
    vf::Outcome oc;
    auto in8 = [&](uint64_t units) {
        char *p = huge_map<char>(units);
        for (uint64_t i = 0; i < units; ++i) p[i] = (char)one8[i % k8];
        return p;
    };
    auto u8_at = [&](uint64_t i) { return one8[i % k8]; };
    auto u16_at = [&](uint64_t i) { return one16[i % k16]; };
    auto cp_at = [&](uint64_t) { return h.cp; };
    void *inp = nullptr;
    uint64_t inbytes = 0;
    switch (h.route) {
    case 0: case 5: case 6: {
        char *p = huge_map<char>(n);
        memset(p, (int)h.cp, n);
        inp = p, inbytes = n + 1;
        oc = vf::guard([&] {
            if (h.route == 0) problem = huge_compare(ST::latin_1_to_utf8(p, n), u8_at, n * k8);
            else if (h.route == 5) problem = huge_compare(ST::latin_1_to_utf16(p, n), cp_at, n);
            else problem = huge_compare(ST::latin_1_to_utf32(p, n), cp_at, n);
        });
        break;
    }
    case 1: case 7: {
        char16_t *p = huge_map<char16_t>(n * k16);
        for (uint64_t i = 0; i < n * k16; ++i) p[i] = (char16_t)one16[i % k16];
        inp = p, inbytes = (n * k16 + 1) * 2;
        oc = vf::guard([&] {
            if (h.route == 1) problem = huge_compare(ST::utf16_to_utf8(p, n * k16, ST::check_validity), u8_at, n * k8);
            else problem = huge_compare(ST::utf16_to_utf32(p, n * k16, ST::check_validity), cp_at, n);
        });
        break;
    }
    case 2: case 8: {
        char32_t *p = huge_map<char32_t>(n);
        for (uint64_t i = 0; i < n; ++i) p[i] = (char32_t)h.cp;
        inp = p, inbytes = (n + 1) * 4;
        oc = vf::guard([&] {
            if (h.route == 2) problem = huge_compare(ST::utf32_to_utf8(p, n, ST::check_validity), u8_at, n * k8);
            else problem = huge_compare(ST::utf32_to_utf16(p, n, ST::check_validity), u16_at, n * k16);
        });
        break;
    }
    case 10: {
        wchar_t *p = huge_map<wchar_t>(n);
        for (uint64_t i = 0; i < n; ++i) p[i] = (wchar_t)h.cp;
        inp = p, inbytes = (n + 1) * 4;
        oc = vf::guard([&] { problem = huge_compare(ST::wchar_to_utf8(p, n, ST::check_validity), u8_at, n * k8); });
        break;
    }
    default: {
        char *p = in8(n * k8);
        inp = p, inbytes = n * k8 + 1;
        oc = vf::guard([&] {
            if (h.route == 3) problem = huge_compare(ST::utf8_to_utf16(p, n * k8, ST::check_validity), u16_at, n * k16);
            else if (h.route == 4) problem = huge_compare(ST::utf8_to_utf32(p, n * k8, ST::check_validity), cp_at, n);
            else if (h.route == 11) problem = huge_compare(ST::utf8_to_wchar(p, n * k8, ST::check_validity), cp_at, n);
            else problem = huge_compare(ST::utf8_to_latin_1(p, n * k8, ST::check_validity), cp_at, n);
        });
        break;
    }
    }
    munmap(inp, inbytes);
    VF_COUNT("ops");
    VF_COUNT("validated");
    c.nontrivial();
    if (!oc.ok())
        c.fail(strf("c03:huge-input:%s", oc.kind == vf::EX_ASSERT ? "assert" : vf::outkind_name(oc.kind)), strf("%s: %s", h.name, oc.str().c_str()));
    else if (!problem.empty())
        c.fail("c03:huge-input:wrong-result", strf("%s: %s", h.name, problem.c_str()));
}

static void build(vf::Plan &plan, const vf::Opts &o)
{
    selftest();
    plan.rule = "cases = distinct unit sequences; non-trivial = input contains at least one malformed unit, or the result is "
                "heap-allocated (prefixed inputs)";
    plan.assumptions = {"a read outside the input is detected by the guard page directly after it (and by ASan in the thorough tier); "
                        "reads before the input are only visible to ASan",
                        "writes outside a heap result are detected by the allocator's tail canary (and ASan); outside an in-object "
                        "result only by ASan",
                        "reference size for assume_valid is the substitute_invalid size (the measuring pass is mode-independent)",
                        "inputs between the sequence bounds and 256 Mi units are represented by uniform inputs at the sizes where the result crosses "
                        "256 MiB / where the input is the largest legal one; their results are compared at 4,096 sample positions and both ends"};
    RunOpts all, prim;
    prim.primary_only = true;
    // the ASan+UBSan build of the thorough tier runs the quick bounds (~8x slower per case); the plain build the large ones
#ifdef VF_ASAN
    bool T = false;
    (void)o;
#else
    bool T = o.thorough();
#endif
#ifdef VF_C03_REDUCED
    // sanitizer build of the quick tier: every route on all sequences up to length 3 (bare and prefixed) and the truncations;
    // what ASan adds over the plain build is the in-object (short) results and reads before the input
    add_both(plan, "utf8: A8^<=3 all routes", ref::E8, A8, 3, false, all);
    add_both(plan, "utf16: A16^<=3 all routes", ref::E16, A16, 3, false, all);
    add_both(plan, "utf32: A32^<=3 all routes", ref::E32, A32, 3, false, all);
    const bool reduced = true;
#else
    const bool reduced = false;
#endif
    if (!reduced) {
    add_both(plan, strf("utf8: A8^<=%u all routes", T ? 5u : 4u), ref::E8, A8, T ? 5 : 4, false, all);
    add_seq_stage(plan, strf("utf8: A8^%u primary routes", T ? 6u : 5u), ref::E8, A8, T ? 6 : 5, true, prim);
    if (T) add_seq_stage(plan, "utf8: core^8 primary routes", ref::E8, A8CORE, 8, true, prim);
    plan.stage("utf8: all 256^2 byte pairs, primary routes", 65536,
               [=](uint64_t i, Ctx &c) { run_case(c, ref::E8, U32V{(uint32_t)(i / 256), (uint32_t)(i % 256)}, prim); },
               [](uint64_t i) { return show_units(ref::E8, U32V{(uint32_t)(i / 256), (uint32_t)(i % 256)}); });
    add_both(plan, strf("utf16: A16^<=%u all routes", T ? 5u : 4u), ref::E16, A16, T ? 5 : 4, false, all);
    add_seq_stage(plan, strf("utf16: A16^%u primary routes", T ? 6u : 5u), ref::E16, A16, T ? 6 : 5, true, prim);
    plan.stage("utf16: every 16-bit unit alone / before / after a surrogate, primary routes", 65536 * 3,
               [=](uint64_t i, Ctx &c) {
                   uint32_t u = (uint32_t)(i % 65536);
                   unsigned k = (unsigned)(i / 65536);
                   run_case(c, ref::E16, k == 0 ? U32V{u} : k == 1 ? U32V{u, 0xDC00} : U32V{0xD800, u}, prim);
               },
               [](uint64_t i) { return strf("unit %04X in context %u", (unsigned)(i % 65536), (unsigned)(i / 65536)); });
    add_both(plan, strf("utf32: A32^<=%u all routes", T ? 5u : 4u), ref::E32, A32, T ? 5 : 4, false, all);
    }
    // Latin-1 sources: every byte value alone and next to 41 / 80 / FF, bare and behind a 16-byte prefix (sizes, terminator,
    // fill-pattern independence and canaries as for the other encodings)
    plan.stage("latin1: every byte alone / before / after {41,80,FF}, bare and behind a 16-byte prefix, all routes", 256 * 7 * 2,
               [=](uint64_t i, Ctx &c) {
                   uint32_t b = (uint32_t)vf::take(i, 256);
                   unsigned k = (unsigned)vf::take(i, 7), pre = (unsigned)vf::take(i, 2);
                   static const uint32_t N[3] = {0x41, 0x80, 0xFF};
                   U32V u = k == 0 ? U32V{b} : k <= 3 ? U32V{b, N[k - 1]} : U32V{N[k - 4], b};
                   RunOpts ro = all;
                   if (pre) {
                       ro.heap_prefix = true;
                       U32V p = ascii_prefix(16);
                       p.insert(p.end(), u.begin(), u.end());
                       u = p;
                   }
                   run_case(c, ref::EL1, u, ro);
               },
               [](uint64_t i) {
                   uint32_t b = (uint32_t)vf::take(i, 256);
                   unsigned k = (unsigned)vf::take(i, 7), pre = (unsigned)vf::take(i, 2);
                   return strf("Latin-1 byte %02X in context %u%s", b, k, pre ? " behind a 16-byte prefix" : "");
               });
    if (!reduced) {
        RunOpts ro = all;
        ro.heap_prefix = true;
        add_position_sweep(plan, T ? 600 : 300, ro);
        add_position_sweep(plan, T ? 80 : 40, ro, 7);
    }
    // truncations of well-formed text: every prefix of every encoding of every sequence in B^<=3
    {
        unsigned L = reduced ? 2 : T ? 4 : 3;
        plan.stage(strf("every truncation of every encoding of B^<=%u, all routes", L), vf::seq_count(B.size(), L),
                   [=](uint64_t i, Ctx &c) {
                       U32V cps, units;
                       seq_from(i, B, L, cps);
                       for (ref::Enc e : {ref::E8, ref::E16, ref::E32}) {
                           encode_cps(cps, e, units);
                           for (size_t cut = 0; cut <= units.size(); ++cut) run_case(c, e, U32V(units.begin(), units.begin() + cut), all);
                       }
                   },
                   [=](uint64_t i) {
                       U32V cps;
                       seq_from(i, B, L, cps);
                       std::string s = "all prefixes of the encodings of";
                       for (uint32_t v : cps) s += strf(" U+%04X", v);
                       return s;
                   });
    }
#ifndef VF_ASAN
    {
        auto cases = std::make_shared<std::vector<HugeCase>>();
        for (const HugeCase &h : HUGE_CASES)
            if (!h.thorough_only || T) cases->push_back(h);
        auto &st = plan.stage(strf("very large uniform inputs below 256 Mi units (%zu conversions, results up to 1 GiB)", cases->size()), cases->size(),
                              [cases](uint64_t i, Ctx &c) { run_huge(c, (*cases)[i]); }, [cases](uint64_t i) { return std::string((*cases)[i].name); });
        st.case_timeout_s = 120;
    }
#endif
    // (nullptr, 0) through every pointer+size route
    plan.stage("null pointer with zero length, every pointer+size entry point", 1,
               [](uint64_t, Ctx &c) {
                   static const ST::utf_validation_t M[3] = {ST::assume_valid, ST::substitute_invalid, ST::check_validity};
                   for (int m = 0; m < 3; ++m) {
                       vf::Outcome oc = vf::guard([&] {
                           size_t total = 0;
                           const char *n8 = nullptr;
                           const char16_t *n16 = nullptr;
                           const char32_t *n32 = nullptr;
                           const wchar_t *nw = nullptr;
                           total += ST::utf8_to_utf16(n8, 0, M[m]).size() + ST::utf8_to_utf32(n8, 0, M[m]).size() +
                                    ST::utf8_to_wchar(n8, 0, M[m]).size() + ST::utf8_to_latin_1(n8, 0, M[m]).size();
                           total += ST::utf16_to_utf8(n16, 0, M[m]).size() + ST::utf16_to_utf32(n16, 0, M[m]).size() +
                                    ST::utf16_to_wchar(n16, 0, M[m]).size() + ST::utf16_to_latin_1(n16, 0, M[m]).size();
                           total += ST::utf32_to_utf8(n32, 0, M[m]).size() + ST::utf32_to_utf16(n32, 0, M[m]).size() +
                                    ST::utf32_to_wchar(n32, 0, M[m]).size() + ST::utf32_to_latin_1(n32, 0, M[m]).size();
                           total += ST::wchar_to_utf8(nw, 0, M[m]).size() + ST::wchar_to_utf16(nw, 0, M[m]).size() +
                                    ST::wchar_to_utf32(nw, 0, M[m]).size() + ST::wchar_to_latin_1(nw, 0, M[m]).size();
                           total += ST::latin_1_to_utf8(n8, 0).size() + ST::latin_1_to_utf16(n8, 0).size() +
                                    ST::latin_1_to_utf32(n8, 0).size() + ST::latin_1_to_wchar(n8, 0).size();
                           total += ST::string(n8, 0, M[m]).size() + ST::string(n16, 0, M[m]).size() + ST::string(n32, 0, M[m]).size() +
                                    ST::string(nw, 0, M[m]).size() + ST::string(n8).size() + ST::string(n16).size() +
                                    ST::string(n32).size() + ST::string(nw).size();
                           total += ST::string::from_utf8(n8, 0, M[m]).size() + ST::string::from_utf16(n16, 0, M[m]).size() +
                                    ST::string::from_utf32(n32, 0, M[m]).size() + ST::string::from_wchar(nw, 0, M[m]).size() +
                                    ST::string::from_latin_1(n8, 0).size() + ST::string::from_utf8(n8).size() +
                                    ST::string::from_latin_1(n8).size();
                           ST::string s("x");
                           s.set(n8, 0, M[m]);
                           total += s.size();
                           s = "x";
                           s.set(n16, 0, M[m]);
                           total += s.size();
                           s = "x";
                           s = n8;
                           total += s.size();
                           VF_ADD("ops", 45);
                           if (total != 0) c.fail("c03:null-input:non-empty-result", strf("%zu units came out of null inputs", total));
                       });
                       VF_COUNT("validated");
                       if (!oc.ok()) c.fail(strf("c03:null-input:%s:%s", vf::outkind_name(oc.kind), oc.what.c_str()), oc.str());
                   }
                   c.nontrivial();
               },
               [](uint64_t) { return std::string("(nullptr, 0) in every mode"); });
    vf_early::add_stage(plan);
}

VF_MAIN("C03", build)
