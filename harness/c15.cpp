// C15 - hex / base64 decoders accept exactly the valid encodings and never overrun the
// caller's buffer.
//
// Every input of the stated finite spaces is given to
//   * the allocating form (twice: an ordinary ST::string and one whose storage ends at a
//     PROT_NONE page, so an over-read past the terminator faults),
//   * the caller-buffer form with null output (size query),
//   * the caller-buffer form with output_size in {0, d-1, d, d+1, d+64} (+ 2^31-1 .. SIZE_MAX over a d+64 block), each twice:
//       layout A: [output_size bytes][64 canary bytes]|guard page   fill 0xEE
//       layout B: [output_size bytes]|guard page                    fill 0x11
//     (a write past output_size damages the canary in A and faults in B; two different
//     fills expose a write whose value happens to equal one fill).
// Oracle = acceptance predicate + arithmetic decoder of harness/common/ref_codec.h, which
// transcribe the property statement.
#define VF_MAIN_TU
#include "early.h"
#include "verif.h"
#include "alloc.h"
#include "ref_codec.h"
#include "st_codecs.h"
#include "hugestr.h"
#include "early_battery.h"

using vf::Ctx;
using vf::strf;

// ------------------------------------------------------------------ guarded input string
// An ST::string whose character storage is n+1 bytes (text + NUL) ending exactly at a
// PROT_NONE page.  The decoders only use size() / c_str(), so this is an ordinary string to
// them; the representation is restored before the destructor runs.
struct GuardedString {
    ST::string s;
    GuardedString(vf::GuardArena &arena, const std::string &text)
    {
        std::string z = text;
        z.push_back('\0');
        char *p = arena.place(z.data(), z.size());
        s.m_buffer.m_chars = p;
        s.m_buffer.m_size = text.size();
    }
    ~GuardedString()
    {
        s.m_buffer.m_size = 0;
        s.m_buffer.m_chars = s.m_buffer.m_data;
    }
};

static vf::GuardArena g_in, g_outA, g_outB;

// ------------------------------------------------------------------ input classes (for signatures)
static const char *char_class(unsigned char ch)
{
    if (ch == 0) return "NUL";
    if (ch == '=') return "'='";
    if (ch >= 0x80) return "byte>=0x80";
    if ((ch >= '0' && ch <= '9')) return "digit";
    if ((ch >= 'a' && ch <= 'f') || (ch >= 'A' && ch <= 'F')) return "hexletter";
    if ((ch >= 'g' && ch <= 'z') || (ch >= 'G' && ch <= 'Z')) return "letter-g..z";
    if (ch == '+' || ch == '/') return "'+'or'/'";
    if (ch == '-' || ch == '_') return "urlsafe'-'or'_'";
    if (ch < 0x20 || ch == 0x7F) return "control";
    return "other-ascii";
}

// why the reference rejects the input (first reason, left to right), or "valid:<shape>"
static std::string hex_class(const std::string &s)
{
    if (s.size() % 2) return "odd-length";
    for (size_t i = 0; i < s.size(); ++i)
        if (ref::hex_value((unsigned char)s[i]) < 0) return strf("nonhex:%s@%s", char_class(s[i]), i % 2 ? "low" : "high");
    return "valid";
}
static std::string b64_class(const std::string &s)
{
    size_t n = s.size();
    if (n % 4) return strf("len%%4=%zu", n % 4);
    for (size_t i = 0; i < n; ++i) {
        unsigned char ch = s[i];
        bool last_group = i + 4 >= n;
        if (ch == '=') {
            if (i == n - 1) continue;
            if (i == n - 2 && s[n - 1] == '=') continue;
            return strf("pad-misplaced@%zu-of-%s-group", i % 4, last_group ? "last" : "earlier");
        }
        if (ref::b64_value(ch) < 0) return strf("bad-char:%s@%zu-of-%s-group", char_class(ch), i % 4, last_group ? "last" : "earlier");
    }
    if (n == 0) return "valid:empty";
    return s[n - 1] != '=' ? "valid:pad0" : s[n - 2] != '=' ? "valid:pad1" : "valid:pad2";
}

struct Codec {
    const char *name;
    bool b64;
    ST_ssize_t buf(const ST::string &t, void *out, size_t n) const { return b64 ? ST::base64_decode(t, out, n) : ST::hex_decode(t, out, n); }
    ST::char_buffer alloc(const ST::string &t) const { return b64 ? ST::base64_decode(t) : ST::hex_decode(t); }
};

static void check_input(Ctx &c, const Codec &cd, const std::string &in)
{
    const bool valid = cd.b64 ? ref::b64_valid(in) : ref::hex_valid(in);
    const std::string want = valid ? (cd.b64 ? ref::b64_decode(in) : ref::hex_decode(in)) : std::string();
    const std::string cls = cd.b64 ? b64_class(in) : hex_class(in);
    const char *nm = cd.name;
    if (valid && !want.empty()) c.nontrivial();
    if (!valid && in.size() % (cd.b64 ? 4 : 2) == 0) c.nontrivial();
    vf::count_dyn(std::string("out:") + nm + ":" + (valid ? "valid" : (in.size() % (cd.b64 ? 4 : 2) ? "invalid-length" : "invalid-content")));

    // decoded length implied by the input's length and padding
    //   hex: n/2 (n even);  base64: 3n/4 minus the padding (n multiple of four)
    // For base64 text whose next-to-last character is '=' while the last one is not (never a
    // valid encoding) "the padding" can be read as 0 or as 1 character; both are accepted for
    // the size query, the decode itself must fail either way.
    long implied = -1, implied_alt = -1;
    if (cd.b64) {
        implied = implied_alt = ref::b64_decoded_len(in);
        size_t n = in.size();
        if (n % 4 == 0 && n >= 2 && in[n - 2] == '=' && in[n - 1] != '=') implied_alt = (long)(n / 4) * 3;
    } else if (in.size() % 2 == 0)
        implied = implied_alt = (long)(in.size() / 2);
    if (valid && implied != (long)want.size()) {
        fprintf(stderr, "c15: reference inconsistent (implied length %ld, decoded %zu)\n", implied, want.size());
        _exit(2);
    }

    ST::string plain = ST::string::from_validated(in.data(), in.size());
    GuardedString gs(g_in, in);
    const ST::string *forms[2] = {&plain, &gs.s};
    const char *fname[2] = {"", "(guarded-input)"};

    // ---- allocating form
    for (int k = 0; k < 2; ++k) {
        std::string got;
        bool term_ok = true;
        vf::Outcome o = vf::guard([&] {
            ST::char_buffer r = cd.alloc(*forms[k]);
            got.assign(r.data(), r.size());
            term_ok = r.data()[r.size()] == 0;
        });
        VF_COUNT("ops");
        VF_COUNT("validated");
        if (valid) {
            if (!o.ok())
                c.fail(strf("%s_decode(alloc):rejected-valid:%s:%s", nm, vf::outkind_name(o.kind), cls.c_str()),
                       strf("%s threw %s on a valid encoding", fname[k], o.str().c_str()));
            else if (got != want)
                c.fail(strf("%s_decode(alloc):wrong-bytes:%s", nm, cls.c_str()),
                       strf("%s got [%s] want [%s]", fname[k], vf::hex_str(got, 24).c_str(), vf::hex_str(want, 24).c_str()));
            else if (!term_ok)
                c.fail(strf("%s_decode(alloc):terminator:%s", nm, cls.c_str()), "result buffer not NUL-terminated");
        } else {
            if (o.ok())
                c.fail(strf("%s_decode(alloc):accepted-invalid:%s", nm, cls.c_str()),
                       strf("%s returned %zu bytes [%s] instead of throwing ST::codec_error", fname[k], got.size(), vf::hex_str(got, 24).c_str()));
            else if (o.kind != vf::EX_CODEC)
                c.fail(strf("%s_decode(alloc):wrong-failure:%s:%s", nm, vf::outkind_name(o.kind), cls.c_str()),
                       strf("%s expected ST::codec_error, got %s", fname[k], o.str().c_str()));
        }
        if (k == 0) vf::count_dyn(std::string("out:") + nm + ":alloc:" + vf::outkind_name(o.kind));
    }

    // ---- null output: size query
    for (size_t osz : {size_t(0), size_t(64)}) {
        ST_ssize_t r = cd.buf(gs.s, nullptr, osz);
        VF_COUNT("ops");
        VF_COUNT("validated");
        if (r != implied && r != implied_alt)
            c.fail(strf("%s_decode(null-output):length:%s", nm, cls.c_str()),
                   strf("returned %zd for output_size=%zu, the input's length and padding imply %ld", (ssize_t)r, osz, implied));
    }

    // ---- caller-buffer form
    // nominal decoded size used to place the output sizes (for inputs of invalid length there
    // is no decoded size; 3n/4 resp. n/2 rounded down keeps the sizes around what a decoder
    // would be tempted to write)
    long d = implied >= 0 ? implied : (long)(cd.b64 ? in.size() * 3 / 4 : in.size() / 2);
    long sizes[5] = {0, d - 1, d, d + 1, d + 64};
    for (int si = 0; si < 5; ++si) {
        long os = sizes[si];
        if (os < 0) continue;
        bool dup = false;
        for (int sj = 0; sj < si; ++sj) dup |= sizes[sj] == os;
        if (dup) continue;
        const char *oscls = os == d ? "size=d" : os < d ? (os == 0 ? "size=0<d" : "size=d-1") : (os == d + 1 ? "size=d+1" : "size=d+64");
        const long expect = (valid && (long)want.size() <= os) ? (long)want.size() : -1;
        for (int layout = 0; layout < 2; ++layout) {
            const unsigned char fill = layout == 0 ? 0xEE : 0x11;
            const size_t canary = layout == 0 ? 64 : 0;
            std::string init((size_t)os + canary, (char)fill);
            unsigned char *blk = (unsigned char *)(layout == 0 ? g_outA : g_outB).place(init.data(), init.size());
            ST_ssize_t r = cd.buf(layout == 0 ? gs.s : plain, blk, (size_t)os);
            VF_COUNT("ops");
            VF_COUNT("validated");
            for (size_t i = (size_t)os; i < (size_t)os + canary; ++i)
                if (blk[i] != fill) {
                    c.fail(strf("%s_decode(buffer):overrun:%s:%s", nm, oscls, cls.c_str()),
                           strf("byte at output+%zu (output_size=%ld) was overwritten with %02X; returned %zd", i, os, blk[i], (ssize_t)r));
                    break;
                }
            if (r != expect) {
                const char *what = expect < 0 ? (valid ? "accepted-too-small-buffer" : "accepted-invalid")
                                              : (r < 0 ? "rejected-valid" : "wrong-return");
                c.fail(strf("%s_decode(buffer):%s:%s:%s", nm, what, oscls, cls.c_str()),
                       strf("returned %zd, expected %ld (output_size=%ld, decoded length %ld)", (ssize_t)r, expect, os, d));
                continue;
            }
            if (expect >= 0) {
                if (memcmp(blk, want.data(), want.size()) != 0)
                    c.fail(strf("%s_decode(buffer):wrong-bytes:%s:%s", nm, oscls, cls.c_str()),
                           strf("wrote [%s] want [%s]", vf::hex_units(blk, want.size(), 24).c_str(), vf::hex_str(want, 24).c_str()));
                for (size_t i = want.size(); i < (size_t)os; ++i)
                    if (blk[i] != fill) {
                        c.fail(strf("%s_decode(buffer):wrote-more-than-returned:%s:%s", nm, oscls, cls.c_str()),
                               strf("returned %zd but byte %zu of the buffer was modified", (ssize_t)r, i));
                        break;
                    }
            }
            if (layout == 0)
                vf::count_dyn(std::string("out:") + nm + ":buffer:" + (r < 0 ? (valid ? "too-small" : "rejected") : "decoded"));
        }
    }
    // ---- capacities up to the integer limits: "would not fit" can never be the answer, and still nothing beyond the
    // decoded length is written (the block really holds d bytes + a 64-byte canary)
    static const size_t HUGE[] = {(size_t(1) << 31) - 1, size_t(1) << 31, size_t(1) << 32, (size_t(1) << 63) - 1, size_t(1) << 63, ~size_t(0)};
    for (size_t os : HUGE) {
        const char *oscls = os <= (size_t(1) << 32) ? "size=2^31..2^32" : "size=2^63..SIZE_MAX";
        const long expect = valid ? (long)want.size() : -1;
        std::string init((size_t)d + 64, (char)0xEE);
        unsigned char *blk = (unsigned char *)g_outA.place(init.data(), init.size());
        ST_ssize_t r = cd.buf(gs.s, blk, os);
        VF_COUNT("ops");
        VF_COUNT("validated");
        size_t lim = valid ? want.size() : 0;
        for (size_t i = lim; i < init.size(); ++i)
            if (blk[i] != 0xEE && (valid || i >= (size_t)d)) {
                c.fail(strf("%s_decode(buffer):overrun:%s:%s", nm, oscls, cls.c_str()),
                       strf("byte at output+%zu (output_size=%zu, decoded length %ld) was overwritten; returned %zd", i, os, d, (ssize_t)r));
                break;
            }
        if (r != expect) {
            c.fail(strf("%s_decode(buffer):%s:%s:%s", nm, expect < 0 ? "accepted-invalid" : (r < 0 ? "rejected-valid" : "wrong-return"), oscls, cls.c_str()),
                   strf("returned %zd, expected %ld (output_size=%zu, decoded length %ld)", (ssize_t)r, expect, os, d));
            continue;
        }
        if (expect >= 0 && memcmp(blk, want.data(), want.size()) != 0)
            c.fail(strf("%s_decode(buffer):wrong-bytes:%s:%s", nm, oscls, cls.c_str()), "wrong bytes");
    }
}

// ------------------------------------------------------------------ alphabets
static const unsigned char X[] = {'0', '9', 'a', 'f', 'A', 'F', 'g', 'G', '/', ':', '@', '`', 0x00, 0x80, 0xFF, ' ', '='};
static const unsigned char Y[] = {'A', '/', '=', '!', 0x00, 0xFF, 'z'};
static const unsigned char Ycore[] = {'A', '=', '!', '/'};

static std::string seq_string(uint64_t idx, const unsigned char *alpha, unsigned k, unsigned L)
{
    std::vector<unsigned> v;
    vf::seq_decode(idx, k, L, v);
    std::string s;
    for (unsigned x : v) s += (char)alpha[x];
    return s;
}
static std::string desc(const std::string &s) { return strf("text[%zu]=%s (hex %s)", s.size(), vf::vis(s).c_str(), vf::hex_str(s, 24).c_str()); }

static const Codec HEX = {"hex", false}, B64 = {"base64", true};

static void selftest()
{
    struct T {
        const char *t;
        bool ok;
        const char *dec;
        size_t n;
    };
    static const T b[] = {{"", true, "", 0},          {"QQ==", true, "A", 1},     {"QUI=", true, "AB", 2},   {"QUJD", true, "ABC", 3},
                          {"QUJDRA==", true, "ABCD", 4}, {"Q", false, "", 0},     {"QQ=", false, "", 0},     {"Q===", false, "", 0},
                          {"QQ=Q", false, "", 0},     {"=QQQ", false, "", 0},     {"QQ==QUJD", false, "", 0}, {"QUJ=QUJD", false, "", 0},
                          {"QU-D", false, "", 0},     {"QUJD\n", false, "", 0},   {"====", false, "", 0},    {"+/+/", true, "\xFB\xFF\xBF", 3}};
    for (auto &t : b) {
        std::string s(t.t);
        if (ref::b64_valid(s) != t.ok || (t.ok && ref::b64_decode(s) != std::string(t.dec, t.n)) ||
            (t.ok && ref::b64_decoded_len(s) != (long)t.n)) {
            fprintf(stderr, "selftest: reference base64 predicate/decoder wrong on \"%s\"\n", t.t);
            exit(2);
        }
    }
    static const T h[] = {{"", true, "", 0},   {"00", true, "\0", 1}, {"fF", true, "\xFF", 1}, {"0aA9", true, "\x0A\xA9", 2}, {"0", false, "", 0},
                          {"0g", false, "", 0}, {"g0", false, "", 0},  {"0x10", false, "", 0},  {" 0", false, "", 0},         {"000", false, "", 0}};
    for (auto &t : h) {
        std::string s(t.t);
        if (ref::hex_valid(s) != t.ok || (t.ok && ref::hex_decode(s) != std::string(t.dec, t.n))) {
            fprintf(stderr, "selftest: reference hex predicate/decoder wrong on \"%s\"\n", t.t);
            exit(2);
        }
    }
    // every 3-byte group: decode(encode(x)) == x in the reference, and the encoding is valid
    for (unsigned v = 0; v < (1u << 24); v += 4099) {
        unsigned char g[3] = {(unsigned char)(v >> 16), (unsigned char)(v >> 8), (unsigned char)v};
        for (size_t n = 0; n <= 3; ++n) {
            std::string e = ref::b64_encode(g, n);
            if (!ref::b64_valid(e) || ref::b64_decode(e) != std::string((char *)g, n)) {
                fprintf(stderr, "selftest: reference base64 does not round-trip\n");
                exit(2);
            }
        }
    }
}

static void build(vf::Plan &plan, const vf::Opts &o)
{
    selftest();
    // a replayed case may end in a fault (guard page); make sure the violations printed before it are not lost
    if (o.replay) setvbuf(stdout, nullptr, _IONBF, 0);
    plan.rule = "cases = input texts (distinct within a stage except that the one-defect stages repeat a text when the defect position lies beyond its end); non-trivial = the text has an acceptable length (so the verdict depends on its characters): a valid non-empty encoding or a well-sized text the reference rejects";
    plan.assumptions = {
        "acceptance predicates and reference decoders in harness/common/ref_codec.h transcribe the property statement (self-tested on fixed tables; encoders validated against CPython binascii by C14)",
        "null-output size query: for base64 text whose next-to-last character is '=' and last is not, both 3n/4 and 3n/4-1 are accepted (the statement does not define 'padding' for such text)",
        "inputs longer than the stated bounds are covered only by locality of the 2-/4-character group loops (prefix groups x last group)"};

    // The sanitizer build of the thorough tier (about 10x slower per case) runs the quick bounds;
    // the larger bounds of the thorough tier are run by the plain build.
#ifdef VF_ASAN
    const bool asan = true;
#else
    const bool asan = false;
#endif
    const bool big = o.thorough() && !asan;
    // VF_REDUCED: the ASan+UBSan build of the quick tier (reads past the text's heap block are invisible to the plain build):
    // short sequence bounds, every stage whose texts reach the heap kept whole
#ifdef VF_REDUCED
    const bool reduced = true;
#else
    const bool reduced = false;
#endif
    const unsigned LX = reduced ? 3 : big ? 6 : 5;
    const unsigned KX = sizeof X;
    plan.stage(strf("hex:X^<=%u(17 symbols)", LX), vf::seq_count(KX, LX),
               [=](uint64_t i, Ctx &c) { check_input(c, HEX, seq_string(i, X, KX, LX)); },
               [=](uint64_t i) { return desc(seq_string(i, X, KX, LX)); });

    plan.stage("hex:all-256^2-two-character-texts(alone+after-'0f')", 65536,
               [](uint64_t i, Ctx &c) {
                   std::string s = {(char)(i >> 8), (char)(i & 0xFF)};
                   check_input(c, HEX, s);
                   check_input(c, HEX, "0f" + s);
               },
               [](uint64_t i) { return desc(std::string{(char)(i >> 8), (char)(i & 0xFF)}) + " (also prefixed by \"0f\")"; });

    {
        // every byte value in every position of texts of length 1..6, other characters from 3 fillers
        static const unsigned LEN[21] = {1, 2, 2, 3, 3, 3, 4, 4, 4, 4, 5, 5, 5, 5, 5, 6, 6, 6, 6, 6, 6};
        static const unsigned POS[21] = {0, 0, 1, 0, 1, 2, 0, 1, 2, 3, 0, 1, 2, 3, 4, 0, 1, 2, 3, 4, 5};
        static const char FILL[3] = {'0', 'F', 'a'};
        auto mk = [](uint64_t i) {
            unsigned b = vf::take(i, 256), slot = vf::take(i, 21), f = vf::take(i, 3);
            std::string s(LEN[slot], FILL[f]);
            s[POS[slot]] = (char)b;
            return s;
        };
        plan.stage("hex:every-byte-in-every-position(len1..6)x3-fillers", 256 * 21 * 3,
                   [mk](uint64_t i, Ctx &c) { check_input(c, HEX, mk(i)); }, [mk](uint64_t i) { return desc(mk(i)); });
    }
    {
        // lengths 0..40 (crossing the 16-byte in-object limit of both the text and the result),
        // valid text with one optional defect at every position
        static const char DEF[4] = {'g', '=', '\0', (char)0xC3};
        auto mk = [](uint64_t i) {
            unsigned len = vf::take(i, 41), defect = vf::take(i, 5), pos = vf::take(i, 40);
            std::string s;
            for (unsigned k = 0; k < len; ++k) s += "0123456789abcdefABCDEF"[(k * 7 + len) % 22];
            if (defect && pos < len) s[pos] = DEF[defect - 1];
            return s;
        };
        plan.stage("hex:lengths0..40x(valid|one-defect-at-each-position)", 41 * 5 * 40,
                   [mk](uint64_t i, Ctx &c) { check_input(c, HEX, mk(i)); }, [mk](uint64_t i) { return desc(mk(i)); });
    }

    const unsigned LY = reduced ? 5 : big ? 9 : 8;
    const unsigned KY = sizeof Y;
    plan.stage(strf("b64:Y^<=%u(7 symbols)", LY), vf::seq_count(KY, LY),
               [=](uint64_t i, Ctx &c) { check_input(c, B64, seq_string(i, Y, KY, LY)); },
               [=](uint64_t i) { return desc(seq_string(i, Y, KY, LY)); });
    {
        // all length-8 and length-12 texts over the 4-symbol core {A,=,!,/}: every shape of
        // (earlier group, last group) with padding / invalid characters anywhere
        const unsigned LC = big ? 12 : 8;  // 12 = three groups (plain build of the thorough tier)
        auto mk = [](uint64_t i) {
            unsigned len = i < vf::ipow(4, 8) ? 8 : 12;
            if (len != 8) i -= vf::ipow(4, 8);
            std::string s(len, 'A');
            for (unsigned k = len; k-- > 0;) s[k] = (char)Ycore[vf::take(i, 4)];
            return s;
        };
        uint64_t n = vf::ipow(4, 8) + (LC == 12 ? vf::ipow(4, 12) : 0);
        plan.stage(strf("b64:{A,=,!,/}^8%s", LC == 12 ? "+^12" : ""), n, [mk](uint64_t i, Ctx &c) { check_input(c, B64, mk(i)); },
                   [mk](uint64_t i) { return desc(mk(i)); });
    }
    {
        // every byte value in every position of the last group, the other three positions from
        // {A,=,!}^3, after 0, 1 or 2 full groups
        static const char OTH[3] = {'A', '=', '!'};
        static const char *PRE[3] = {"", "QUJD", "////zzzz"};
        auto mk = [](uint64_t i) {
            unsigned b = vf::take(i, 256), pos = vf::take(i, 4), o3 = vf::take(i, 27), pre = vf::take(i, 3);
            std::string g(4, 'A');
            for (unsigned k = 0, q = o3; k < 4; ++k) {
                if (k == pos) continue;
                g[k] = OTH[q % 3];
                q /= 3;
            }
            g[pos] = (char)b;
            return std::string(PRE[pre]) + g;
        };
        plan.stage("b64:every-byte-in-every-position-of-last-group x {A,=,!}^3 x 3-prefixes", 256 * 4 * 27 * 3,
                   [mk](uint64_t i, Ctx &c) { check_input(c, B64, mk(i)); }, [mk](uint64_t i) { return desc(mk(i)); });
    }
    {
        // every byte value in every position of an earlier group, followed by each last-group shape
        static const char *LAST[6] = {"QUJD", "QUI=", "QQ==", "Q===", "====", "QQ=Q"};
        auto mk = [](uint64_t i) {
            unsigned b = vf::take(i, 256), pos = vf::take(i, 4), last = vf::take(i, 6), two = vf::take(i, 2);
            std::string g = "zzzz";
            g[pos] = (char)b;
            return (two ? std::string("AAAA") : std::string()) + g + LAST[last];
        };
        plan.stage("b64:every-byte-in-every-position-of-an-earlier-group x 6-last-groups", 256 * 4 * 6 * 2,
                   [mk](uint64_t i, Ctx &c) { check_input(c, B64, mk(i)); }, [mk](uint64_t i) { return desc(mk(i)); });
    }
    {
        // all 256^2 byte pairs in every pair of positions of a single group, other two positions 'A' or '='
        static const unsigned PA[6] = {0, 0, 0, 1, 1, 2}, PB[6] = {1, 2, 3, 2, 3, 3};
        auto mk = [](uint64_t i) {
            unsigned v = vf::take(i, 65536), pp = vf::take(i, 6), oth = vf::take(i, 2), pre = vf::take(i, 2);
            std::string g(4, oth ? '=' : 'A');
            g[PA[pp]] = (char)(v >> 8);
            g[PB[pp]] = (char)(v & 0xFF);
            return (pre ? std::string("QUJD") : std::string()) + g;
        };
        uint64_t n = reduced ? 65536ull : 65536ull * 6 * 2 * 2;
        plan.stage("b64:all-256^2-pairs-in-each-2-positions-of-the-last-group x {A,=} x {alone,after-group}", n,
                   [mk](uint64_t i, Ctx &c) { check_input(c, B64, mk(i)); }, [mk](uint64_t i) { return desc(mk(i)); });
    }
    {
        // lengths 0..60 of valid text (result crosses the 16-byte limit), each padding shape,
        // one optional defect at every position
        static const char DEF[5] = {'=', '!', '\0', (char)0xFF, '-'};
        auto mk = [](uint64_t i) {
            unsigned groups = vf::take(i, 16), pad = vf::take(i, 3), defect = vf::take(i, 6), pos = vf::take(i, 60);
            std::string s;
            for (unsigned k = 0; k < groups * 4; ++k) s += ref::b64_char((k * 11 + groups * 5) % 64);
            if (groups && pad >= 1) s[s.size() - 1] = '=';
            if (groups && pad >= 2) s[s.size() - 2] = '=';
            if (defect && pos < s.size()) s[pos] = DEF[defect - 1];
            return s;
        };
        plan.stage("b64:0..15-groups x pad{0,1,2} x (valid|one-defect-at-each-position)", 16 * 3 * 6 * 60,
                   [mk](uint64_t i, Ctx &c) { check_input(c, B64, mk(i)); }, [mk](uint64_t i) { return desc(mk(i)); });
    }
    // ---- valid text followed by / preceded by characters a lenient reader might strip (line terminators, blanks, NUL, '='): the
    // decoders take exactly the alphabet, so every such text is rejected unless it happens to be valid as a whole
    {
        static const char *const SUF[14] = {"\n", "\r\n", "\r", "\n\n", " ", "\t", "\0", "=", "==", " \n", "\n ", "\r\n\r\n", "\x0B", "\x0C"};
        static const size_t SUFN[14] = {1, 2, 1, 2, 1, 1, 1, 1, 2, 2, 2, 4, 1, 1};
        plan.stage("valid text of 0..5 groups (each padding shape) with one of 14 white-space / NUL / '=' runs appended or prepended, hex and base64", 6 * 3 * 14 * 2 * 2,
                   [](uint64_t i, Ctx &c) {
                       unsigned groups = (unsigned)vf::take(i, 6), pad = (unsigned)vf::take(i, 3), si = (unsigned)vf::take(i, 14), front = (unsigned)vf::take(i, 2), codec = (unsigned)i;
                       std::string t;
                       if (codec) {
                           for (unsigned k = 0; k < groups * 4; ++k) t += ref::b64_char((k * 11 + groups * 5) % 64);
                           if (groups && pad >= 1) t[t.size() - 1] = '=';
                           if (groups && pad >= 2) t[t.size() - 2] = '=';
                       } else
                           for (unsigned k = 0; k < groups * 2 + pad * 2; ++k) t += "0123456789abcdefABCDEF"[(k * 7 + groups) % 22];
                       std::string x(SUF[si], SUFN[si]);
                       check_input(c, codec ? B64 : HEX, front ? x + t : t + x);
                   },
                   [](uint64_t i) { return strf("trailing / leading run case %llu", (unsigned long long)i); });
    }
    // ---- the text in a char array larger than the text (what a caller reading lines into a fixed buffer passes): the array denotes
    // the C string in it, for both decoders and all three forms
    {
        plan.stage("text in a char[12] / char[64] array larger than the text: both codecs x allocating / caller-buffer / size query", 2 * 6,
                   [](uint64_t i, Ctx &c) {
                       unsigned codec = (unsigned)vf::take(i, 2), k = (unsigned)i;
                       static const char *const HX[6] = {"01", "abCD", "", "00ff7f", "0g", "123"};
                       static const char *const B6[6] = {"AQ==", "AQID", "", "AQIDBA==", "A!==", "AQI"};
                       const char *t = codec ? B6[k] : HX[k];
                       char small[12] = {0}, big[64];
                       memset(big, 0, sizeof big);
                       strcpy(small, t);
                       strcpy(big, t);
                       ST::string st = ST::string::from_validated(t, strlen(t));
                       auto run = [&](auto &&arg, std::string &bytes, long &ret, long &query) {
                           return vf::guard([&] {
                               char out[64];
                               ret = codec ? (long)ST::base64_decode(arg, out, sizeof out) : (long)ST::hex_decode(arg, out, sizeof out);
                               query = codec ? (long)ST::base64_decode(arg, nullptr, 0) : (long)ST::hex_decode(arg, nullptr, 0);
                               ST::char_buffer b = codec ? ST::base64_decode(arg) : ST::hex_decode(arg);
                               bytes.assign(b.data(), b.size());
                           });
                       };
                       std::string b0, b1, b2;
                       long r0 = 0, r1 = 0, r2 = 0, q0 = 0, q1 = 0, q2 = 0;
                       vf::Outcome o0 = run(st, b0, r0, q0), o1 = run(small, b1, r1, q1), o2 = run(big, b2, r2, q2);
                       VF_COUNT("validated");
                       if (o1.kind != o0.kind || o2.kind != o0.kind || r1 != r0 || r2 != r0 || q1 != q0 || q2 != q0 || b1 != b0 || b2 != b0)
                           c.fail(strf("%s_decode(char array larger than its text):differs-from-the-string", codec ? "base64" : "hex"),
                                  strf("text %s: as ST::string %s/%ld/%ld, in char[12] %s/%ld/%ld, in char[64] %s/%ld/%ld", vf::vis(t).c_str(), vf::outkind_name(o0.kind), r0, q0,
                                       vf::outkind_name(o1.kind), r1, q1, vf::outkind_name(o2.kind), r2, q2));
                       c.nontrivial();
                   },
                   [](uint64_t i) { return strf("char-array case %u", (unsigned)i); });
    }
    // ---- a text of 2^32 characters (decoded sizes beyond 2^31): size queries, capacity checks and, in the thorough tier, the
    // complete decode.  The text's block shares a 16 MiB window of real memory filled with '0', a character of both alphabets.
#ifndef VF_ASAN
    if (!reduced) {
        const bool full = o.thorough();
        auto &st = plan.stage(strf("huge text: 2^32 and 2^32+4 characters '0': size query, capacity one short, %s", full ? "complete decode into an exact-fit buffer" : "exact capacity for the 2^32+4 tail check"),
                              2,
                              [full](uint64_t i, Ctx &c) {
                                  const size_t L = (size_t(1) << 32) + (i ? 4 : 0);
                                  vf::Outcome o = vf::guard([&] {
                                      hugestr::Scope scope(true);
                                      ST::char_buffer cb;
                                      cb.allocate(L);
                                      memset(cb.data(), '0', vf::AllocState::ALIAS_WINDOW < L ? vf::AllocState::ALIAS_WINDOW : L);
                                      if (i) memset(cb.data() + (size_t(1) << 32), '0', 4);  // the private tail
                                      ST::string t = ST::string::from_validated(std::move(cb));
                                      auto expect = [&](const char *call, long long got, long long want) {
                                          VF_COUNT("validated");
                                          if (got != want)
                                              c.fail(strf("huge-text:%s", call), strf("text of %zu characters '0': %s returned %lld, expected %lld", L, call, got, want));
                                      };
                                      const long long hx = (long long)(L / 2), b6 = (long long)(L / 4 * 3);
                                      expect("hex_decode(null-output):length", ST::hex_decode(t, nullptr, 0), hx);
                                      expect("base64_decode(null-output):length", ST::base64_decode(t, nullptr, 0), b6);
                                      char small[8];
                                      expect("hex_decode(buffer):capacity-8", ST::hex_decode(t, small, sizeof small), -1);
                                      expect("base64_decode(buffer):capacity-8", ST::base64_decode(t, small, sizeof small), -1);
                                      hugestr::LazyBytes out((size_t)b6 + 16);
                                      if (!out.p) return;
                                      expect("hex_decode(buffer):capacity-one-short", ST::hex_decode(t, out.p, (size_t)hx - 1), -1);
                                      expect("base64_decode(buffer):capacity-one-short", ST::base64_decode(t, out.p, (size_t)b6 - 1), -1);
                                      if (full) {
                                          // '0' '0' decodes to 0x00; "0000" decodes to D3 4D 34: checked at both ends and across 2^31
                                          expect("hex_decode(buffer):exact-capacity", ST::hex_decode(t, out.p, (size_t)hx), hx);
                                          VF_COUNT("validated");
                                          if (out.p[0] != 0 || out.p[hx - 1] != 0 || out.p[(size_t(1) << 31) - 1] != 0)
                                              c.fail("huge-text:hex_decode(buffer):bytes", "decoded bytes of a text of '0' characters are not zero");
                                          expect("base64_decode(buffer):exact-capacity", ST::base64_decode(t, out.p, (size_t)b6), b6);
                                          VF_COUNT("validated");
                                          const unsigned char *u = (const unsigned char *)out.p;
                                          size_t q = ((size_t(1) << 31) / 3) * 3;
                                          if (u[0] != 0xD3 || u[1] != 0x4D || u[2] != 0x34 || u[b6 - 1] != 0x34 || u[q] != 0xD3 || u[q + 2] != 0x34)
                                              c.fail("huge-text:base64_decode(buffer):bytes", "decoded bytes of a text of '0' characters are not D3 4D 34 ...");
                                      }
                                  });
                                  if (!o.ok()) c.fail(strf("huge-text:%s", vf::outkind_name(o.kind)), o.str());
                                  vf::huge_reset();
                                  c.nontrivial();
                              },
                              [](uint64_t i) { return std::string(i ? "text of 2^32+4 characters" : "text of 2^32 characters"); });
        st.case_timeout_s = 600;
    }
#endif
    vf_early::add_stage(plan);
}

VF_MAIN("C15", build)
