// C09 - split, tokenize and replace partition the text exactly; join inverts split; every call terminates.
//   split    : every subject over {a, b, A, ',', NUL}^<=L x every separator ^<=3 x max_splits in
//              {0,1,2,3,SIZE_MAX-1,SIZE_MAX} x {char, const char*, ST::string} x cs/ci
//   replace  : every subject x every pattern ^<=3 x every replacement over {a, b, ','}^<=3 x 4 overloads x cs/ci
//   tokenize : every subject over {a, b, ',', ' ', TAB, NUL}^<=L x 6 delimiter sets
//   long     : every subject over {a, ','}^n for n around the small-string limit (results grow / shrink across it)
//   fold     : case-folding boundary alphabet {@,`,A,a,Z,z,[,{,U+00C1,U+00E1}; utf8: whole multi-byte characters
// Oracle: refs:: naive loops; piece count <= max+1; join(pieces, sep) == text; replace length formula;
// empty separator / pattern leaves the text whole; termination = per-case watchdog + allocation budget
// (single request <= 64 KiB, <= ALLOC_CAP allocations per call).
#define VF_MAIN_TU
#include "early.h"
#include "verif.h"
#include "alloc.h"
#include "ref_slice.h"
#include "longpat.h"
#include "st_string.h"
#include "early_battery.h"

using vf::Ctx;
using vf::strf;

static const size_t ALLOC_MAX_REQUEST = size_t(1) << 20;  // largest single request a call may make (1 MiB = 32768 pieces)
static const long ALLOC_CAP = 40000; // allocations per library call before it is declared a runaway
typedef std::vector<std::string> SV;

static inline ST::string mkst(const std::string &s) { return ST::string::from_validated(s.data(), s.size()); }

static std::string seq_string(uint64_t idx, const std::string &alphabet, unsigned L)
{
    std::vector<unsigned> d;
    vf::seq_decode(idx, alphabet.size(), L, d);
    std::string s(d.size(), 0);
    for (size_t i = 0; i < d.size(); ++i) s[i] = alphabet[d[i]];
    return s;
}
static std::string vis_list(const SV &v, size_t maxn = 12)
{
    std::string o = strf("%zu piece(s) [", v.size());
    for (size_t i = 0; i < v.size() && i < maxn; ++i) o += (i ? " " : "") + vf::vis(v[i], 40);
    if (v.size() > maxn) o += " ...";
    return o + "]";
}
static std::string max_str(uint64_t m) { return m >= UINT64_MAX - 1 ? strf("SIZE_MAX-%u", (unsigned)(UINT64_MAX - m)) : strf("%llu", (unsigned long long)m); }

struct Segments {
    std::vector<uint64_t> off{0};
    void add(uint64_t n) { off.push_back(off.back() + n); }
    uint64_t total() const { return off.back(); }
    size_t locate(uint64_t idx, uint64_t &local) const
    {
        size_t s = std::upper_bound(off.begin(), off.end(), idx) - off.begin() - 1;
        local = idx - off[s];
        return s;
    }
};

// ---------------------------------------------------------------- outcome counters
enum OpK { K_SPLIT, K_REPLACE, K_TOKENIZE, NOPK };
static const char *OPKN[NOPK] = {"split", "replace", "tokenize"};
enum Cls { C_0, C_1, C_2, C_MANY, C_WRONG, C_EXC, C_RUNAWAY, NCLS };
static const char *const CLSN[NOPK][NCLS] = {
    {"ok-0-pieces", "ok-1-piece", "ok-2-pieces", "ok-3+-pieces", "wrong-result", "exception", "runaway-stopped-by-budget"},
    {"ok-0-occurrences", "ok-1-occurrence", "ok-2-occurrences", "ok-3+-occurrences", "wrong-result", "exception", "runaway-stopped-by-budget"},
    {"ok-0-tokens", "ok-1-token", "ok-2-tokens", "ok-3+-tokens", "wrong-result", "exception", "runaway-stopped-by-budget"}};
static void out_count(int op, int cls)
{
    static int ids[NOPK][NCLS];
    int &id = ids[op][cls];
    if (!id) id = vf::counter_id(strf("out:%s:%s", OPKN[op], CLSN[op][cls]).c_str()) + 1;
    vf::g_local[id - 1]++;
}
static int ncls(size_t n) { return n == 0 ? C_0 : n == 1 ? C_1 : n == 2 ? C_2 : C_MANY; }

// ---------------------------------------------------------------- guarded calls under the allocation budget
struct Res {
    vf::Outcome o;
    SV pieces;        // vector results
    std::string val;  // string results
    bool term = true, runaway = false, oversize = false, fault = false, toolong = false;
    size_t got_size = 0, max_req = 0;
    unsigned long nallocs = 0;
    unsigned events = 0;
    std::string event;
    std::string why() const
    {
        return strf("%s; %lu allocation(s) during the call, largest request %zu bytes%s%s%s", o.str().c_str(), nallocs, max_req,
                    fault ? strf(", stopped at the %ld-allocation budget", ALLOC_CAP).c_str() : "",
                    oversize ? ", a single request exceeded the 1 MiB budget" : "", events ? (", heap event: " + event).c_str() : "");
    }
};
static const size_t DEFAULT_MAX_REQUEST = vf::g_alloc.max_request;
// the budget is in force only while a library call runs (the harness and the parent process are not limited)
static void budget_on()
{
    vf::g_alloc.max_request = ALLOC_MAX_REQUEST;
    vf::arm_fault(ALLOC_CAP);
}
static void capture(Res &r)
{
    vf::disarm_fault();
    vf::g_alloc.max_request = DEFAULT_MAX_REQUEST;
    r.max_req = vf::g_alloc.max_seen;
    r.oversize = vf::g_alloc.oversize;
    r.fault = vf::g_alloc.fault_fired;
    r.nallocs = vf::g_alloc.n_allocs;
}
template <class F>
static Res run_vec(F &&f)
{
    Res r;
    vf::events_reset();
    vf::window_reset();
    r.o = vf::guard([&] {
        try {
            budget_on();
            std::vector<ST::string> out = f();
            capture(r);
            r.pieces.reserve(out.size());
            for (const ST::string &p : out) {
                if (p.c_str()[p.size()] != 0) r.term = false;
                r.pieces.emplace_back(p.c_str(), p.size());
            }
        } catch (...) {
            capture(r);
            throw;
        }
    });
    r.runaway = r.o.kind == vf::EX_BAD_ALLOC && (r.fault || r.oversize);
    r.events = vf::events_total();
    if (r.events) r.event = vf::g_alloc.first_event;
    return r;
}
template <class F>
static Res run_str(size_t limit, F &&f)
{
    Res r;
    vf::events_reset();
    vf::window_reset();
    r.o = vf::guard([&] {
        try {
            budget_on();
            ST::string out = f();
            capture(r);
            r.got_size = out.size();
            if (out.size() > limit) r.toolong = true;
            else {
                r.term = out.c_str()[out.size()] == 0;
                r.val.assign(out.c_str(), out.size());
            }
        } catch (...) {
            capture(r);
            throw;
        }
    });
    r.runaway = r.o.kind == vf::EX_BAD_ALLOC && (r.fault || r.oversize);
    r.events = vf::events_total();
    if (r.events) r.event = vf::g_alloc.first_event;
    return r;
}
static std::string exc_tag(const Res &r) { return r.runaway ? "runaway" : vf::outkind_name(r.o.kind); }

// ---------------------------------------------------------------- split
enum Form { F_CHAR, F_CSTR, F_STR, F_U8, NFORMS };
static const char *FORMN[NFORMS] = {"char", "const char*", "ST::string", "const char8_t*"};

static std::vector<ST::string> call_split(int form, const ST::string &s, char ch, const char *cz, const ST::string &ss, uint64_t max, bool ci)
{
    ST::case_sensitivity_t cs = ci ? ST::case_insensitive : ST::case_sensitive;
    if (form == F_U8) return s.split(reinterpret_cast<const char8_t *>(cz), (size_t)max, cs);
    return form == F_CHAR ? s.split(ch, (size_t)max, cs) : form == F_CSTR ? s.split(cz, (size_t)max, cs) : s.split(ss, (size_t)max, cs);
}

// one split call against the reference; returns the failure tag ("" = passed)
static std::string split_verdict(const Res &r, const std::string &subj, const std::string &esep, uint64_t max, bool ci, const SV &want)
{
    if (!r.o.ok()) return exc_tag(r);
    if ((refs::wide)r.pieces.size() > (refs::wide)max + 1) return "count>max+1";
    std::string j = refs::join(r.pieces, esep);
    if (ci ? refs::folded(j) != refs::folded(subj) : j != subj) return "join";
    if (r.pieces != want) return "pieces";
    if (!r.term) return "terminator";
    if (r.events) return "heap-event";
    return "";
}

static bool is_ascii(const std::string &s)
{
    for (char ch : s)
        if ((unsigned char)ch >= 0x80) return false;
    return true;
}
// utf8_clean: subject and separator are sequences of whole, valid UTF-8 characters (so the per-piece
// re-validation that split(const char*) performs for a non-ASCII separator has nothing to reject)
static bool form_applies(int form, const std::string &sep, bool utf8_clean)
{
    if (form == F_CHAR) return sep.size() == 1 && sep[0] >= 0x01 && (unsigned char)sep[0] <= 0x7F;  // documented contract of split(char)
    if (form == F_CSTR || form == F_U8) return sep.find('\0') == std::string::npos && (utf8_clean || is_ascii(sep));  // a C string cannot carry a NUL
    return true;
}

static void check_split_impl(Ctx &c, const std::string &subj, const std::string &sep, uint64_t max, bool &nt, bool utf8_clean);
// calls that omit max_splits and the case mode: unlimited, case-sensitive
static void check_split_defaults(Ctx &c, const std::string &subj, const std::string &sep, bool utf8_clean)
{
    static vf::GuardArena ga;
    ST::string s = mkst(subj), ss = mkst(sep);
    const char *cz = ga.place(sep.c_str(), sep.size() + 1);
    SV want = refs::split(subj, sep, UINT64_MAX, false);
    for (int form = 0; form < NFORMS; ++form) {
        if (!form_applies(form, sep, utf8_clean)) continue;
        Res r = run_vec([&] {
            return form == F_CHAR ? s.split(sep[0]) : form == F_CSTR ? s.split(cz) : form == F_STR ? s.split(ss) : s.split(reinterpret_cast<const char8_t *>(cz));
        });
        VF_COUNT("ops");
        VF_COUNT("validated");
        if (!r.o.ok() || r.pieces != want)
            c.fail(strf("split(%s):default-arguments-differ-from-(SIZE_MAX,case_sensitive)", FORMN[form]),
                   strf("split(%s) [%s form, defaults] on %s %s; expected %s", vf::vis(sep).c_str(), FORMN[form], vf::vis(subj).c_str(),
                        r.o.ok() ? ("returned " + vis_list(r.pieces)).c_str() : ("ended with " + r.why()).c_str(), vis_list(want).c_str()));
    }
}
static void check_split(Ctx &c, const std::string &subj, const std::string &sep, uint64_t max, bool &nt, bool utf8_clean = false)
{
    check_split_impl(c, subj, sep, max, nt, utf8_clean);
    if (max == UINT64_MAX && !sep.empty()) check_split_defaults(c, subj, sep, utf8_clean);
}
static void check_split_impl(Ctx &c, const std::string &subj, const std::string &sep, uint64_t max, bool &nt, bool utf8_clean)
{
    static vf::GuardArena ga;
    ST::string s = mkst(subj), ss = mkst(sep);
    const char *cz = ga.place(sep.c_str(), sep.size() + 1);
    const char ch = sep.size() == 1 ? sep[0] : 'x';
    const bool has_nul = subj.find('\0') != std::string::npos;
    SV wants[2] = {refs::split(subj, sep, max, false), refs::split(subj, sep, max, true)};
    size_t occs[2] = {sep.empty() ? 0 : refs::count_occ(subj, sep, false), sep.empty() ? 0 : refs::count_occ(subj, sep, true)};
    if (max && (occs[0] || occs[1])) nt = true;
    for (int form = 0; form < NFORMS; ++form) {
        if (!form_applies(form, sep, utf8_clean)) continue;
        for (int ci = 0; ci < 2; ++ci) {
            const SV &want = wants[ci];
            const size_t occ = occs[ci];
            Res r = run_vec([&] { return call_split(form, s, ch, cz, ss, max, ci); });
            VF_COUNT("ops");
            VF_COUNT("validated");
            std::string tag = split_verdict(r, subj, sep, max, ci, want);
            if (tag.empty()) {
                out_count(K_SPLIT, ncls(r.pieces.size()));
                continue;
            }
            out_count(K_SPLIT, r.runaway ? C_RUNAWAY : r.o.ok() ? C_WRONG : C_EXC);
            std::string call = strf("split(%s, %s%s) [%s form] on %s", vf::vis(sep).c_str(), max_str(max).c_str(), ci ? ", case_insensitive" : "",
                                    FORMN[form], vf::vis(subj).c_str());
            std::string obs = r.o.ok() ? "returned " + vis_list(r.pieces) : "ended with " + r.why();
            if (sep.empty()) {
                // "An empty separator ... leaves the text whole"
                c.fail(strf("split(%s):sep=empty:%s:text-not-whole", FORMN[form], has_nul ? "text-has-NUL" : "text-without-NUL"),
                       strf("%s %s; expected the text whole: %s", call.c_str(), obs.c_str(), vis_list(want).c_str()));
                continue;
            }
            bool fold_specific = false;
            if (ci) {  // is the failure specific to folding?  same call, pre-folded data, case-sensitive mode
                std::string fs = refs::folded(subj), fp = refs::folded(sep);
                ST::string s2 = mkst(fs), ss2 = mkst(fp);
                Res r2 = run_vec([&] { return call_split(form, s2, (char)refs::fold((unsigned char)ch), fp.c_str(), ss2, max, false); });
                fold_specific = split_verdict(r2, fs, fp, max, false, refs::split(fs, fp, max, false)).empty();
            }
            const char *mc = (refs::wide)max < (refs::wide)occ ? "max<occurrences" : max == occ ? "max=occurrences" : "max>occurrences";
            c.fail(strf("split(%s):sep=%s:%s%s:%s", FORMN[form], sep.size() == 1 ? "1" : "multi", mc, fold_specific ? ":ci" : "", tag.c_str()),
                   strf("%s %s; expected %s", call.c_str(), obs.c_str(), vis_list(want).c_str()));
        }
    }
}

// ---------------------------------------------------------------- replace
enum RForm { R_SS, R_CC, R_SC, R_CS, R_UU, R_SU, R_US, R_SS_V, R_CC_V, R_SC_V, R_CS_V, NRFORMS };
static const unsigned ALL_RFORMS = 2047;
static const char *RFORMN[NRFORMS] = {"ST::string,ST::string", "const char*,const char*", "ST::string,const char*", "const char*,ST::string",
                                      "const char8_t*,const char8_t*", "ST::string,const char8_t*", "const char8_t*,ST::string",
                                      "ST::string,ST::string,cs,validation", "const char*,const char*,cs,validation", "ST::string,const char*,cs,validation",
                                      "const char*,ST::string,cs,validation"};

static ST::string call_replace_on(int form, const ST::string &s, const ST::string &fs, const char *fz, const ST::string &ts, const char *tz, bool ci);
// every overload is called on a const subject and on a non-const copy of it (some overloads are declared without const and are
// only selected for a non-const object); both results must be the same
static ST::string call_replace(int form, const ST::string &s, const ST::string &fs, const char *fz, const ST::string &ts, const char *tz, bool ci)
{
    ST::string r1 = call_replace_on(form, s, fs, fz, ts, tz, ci);
    ST::string m = s;
    ST::case_sensitivity_t cs = ci ? ST::case_insensitive : ST::case_sensitive;
    ST::string r2;
    switch (form) {
    case R_SS: r2 = m.replace(fs, ts, cs); break;
    case R_CC: r2 = m.replace(fz, tz, cs); break;
    case R_SC: r2 = m.replace(fs, tz, cs); break;
    case R_CS: r2 = m.replace(fz, ts, cs); break;
    case R_UU: r2 = m.replace(reinterpret_cast<const char8_t *>(fz), reinterpret_cast<const char8_t *>(tz), cs); break;
    case R_SU: r2 = m.replace(fs, reinterpret_cast<const char8_t *>(tz), cs); break;
    case R_US: r2 = m.replace(reinterpret_cast<const char8_t *>(fz), ts, cs); break;
    default: return r1;
    }
    if (r2 != r1) throw std::runtime_error("replace on a non-const subject differs from replace on a const one");
    if (m != s) throw std::runtime_error("replace changed its (non-const) subject");
    return r1;
}
static ST::string call_replace_on(int form, const ST::string &s, const ST::string &fs, const char *fz, const ST::string &ts, const char *tz, bool ci)
{
    ST::case_sensitivity_t cs = ci ? ST::case_insensitive : ST::case_sensitive;
    switch (form) {
    case R_SS: return s.replace(fs, ts, cs);
    case R_CC: return s.replace(fz, tz, cs);
    case R_SC: return s.replace(fs, tz, cs);
    case R_CS: return s.replace(fz, ts, cs);
    case R_UU: return s.replace(reinterpret_cast<const char8_t *>(fz), reinterpret_cast<const char8_t *>(tz), cs);
    case R_SU: return s.replace(fs, reinterpret_cast<const char8_t *>(tz), cs);
    case R_US: return s.replace(reinterpret_cast<const char8_t *>(fz), ts, cs);
    // the overloads with an explicit validation mode (the pattern / replacement are valid here, so the mode changes nothing)
    case R_SS_V: return s.replace(fs, ts, cs, ST::check_validity);
    case R_CC_V: return s.replace(fz, tz, cs, ST::substitute_invalid);
    case R_SC_V: return s.replace(fs, tz, cs, ST::check_validity);
    default: return s.replace(fz, ts, cs, ST::assume_valid);
    }
}
static std::string replace_verdict(const Res &r, const std::string &subj, const std::string &from, const std::string &to, size_t k, const std::string &want)
{
    if (!r.o.ok()) return exc_tag(r);
    refs::wide len = (refs::wide)subj.size() + (refs::wide)k * ((refs::wide)to.size() - (refs::wide)from.size());
    if (from.empty()) len = subj.size();
    if ((refs::wide)r.got_size != len) return "length";
    if (r.toolong || r.val != want) return "value";
    if (!r.term) return "terminator";
    if (r.events) return "heap-event";
    return "";
}

static void check_replace(Ctx &c, const std::string &subj, const std::string &from, const std::string &to, unsigned forms, bool &nt)
{
    static vf::GuardArena gf, gt;
    ST::string s = mkst(subj), fs = mkst(from), ts = mkst(to);
    const char *fz = gf.place(from.c_str(), from.size() + 1), *tz = gt.place(to.c_str(), to.size() + 1);
    const bool cstr_from_ok = from.find('\0') == std::string::npos, cstr_to_ok = to.find('\0') == std::string::npos;
    const size_t limit = subj.size() + (subj.size() + 1) * (to.size() + 1);
    size_t ks[2] = {0, 0};
    std::string wants[2] = {refs::replace(subj, from, to, false, &ks[0]), refs::replace(subj, from, to, true, &ks[1])};
    if (ks[0] || ks[1]) nt = true;
    bool ss_failed[2] = {false, false};
    for (int form = 0; form < NRFORMS; ++form) {  // R_SS first
        static_assert(R_SS == 0, "the forwarding target must be checked first");
        if ((form == R_CC || form == R_CS || form == R_UU || form == R_US || form == R_CC_V || form == R_CS_V) && !cstr_from_ok) continue;
        if ((form == R_CC || form == R_SC || form == R_UU || form == R_SU || form == R_CC_V || form == R_SC_V) && !cstr_to_ok) continue;
        if (!(forms >> form & 1)) continue;
        for (int ci = 0; ci < 2; ++ci) {
            const size_t k = ks[ci];
            const std::string &want = wants[ci];
            Res r = run_str(limit, [&] { return call_replace(form, s, fs, fz, ts, tz, ci); });
            VF_COUNT("ops");
            VF_COUNT("validated");
            std::string tag = replace_verdict(r, subj, from, to, k, want);
            if (tag.empty()) {
                out_count(K_REPLACE, ncls(k));
                continue;
            }
            out_count(K_REPLACE, r.runaway ? C_RUNAWAY : r.o.ok() ? C_WRONG : C_EXC);
            // The const char* overloads convert their arguments and forward to replace(ST::string, ST::string).  When that
            // one already failed on this very input the failure is attributed to it alone; an overload gets its own
            // signature only when it fails where the ST::string form is right.
            if (form == R_SS) ss_failed[ci] = true;
            else if (ss_failed[ci]) {
                VF_COUNT("replace-overload-failures-attributed-to-string-form");
                continue;
            }
            std::string call = strf("replace(%s, %s%s) [%s form] on %s", vf::vis(from).c_str(), vf::vis(to).c_str(), ci ? ", case_insensitive" : "",
                                    RFORMN[form], vf::vis(subj).c_str());
            std::string obs = !r.o.ok() ? "ended with " + r.why()
                                        : r.toolong ? strf("returned a string of size %zu", r.got_size)
                                                    : strf("returned %s (size %zu)", vf::vis(r.val).c_str(), r.got_size);
            std::string exp = strf("expected %s (size %zu = %zu + %zu*(%zu-%zu))", vf::vis(want).c_str(), want.size(), subj.size(), k, to.size(), from.size());
            if (from.empty()) {
                c.fail(strf("replace(%s):from=empty:text-changed", RFORMN[form]), call + " " + obs + "; " + exp);
                continue;
            }
            bool fold_specific = false;
            if (ci) {
                std::string fsu = refs::folded(subj), ff = refs::folded(from);
                ST::string s2 = mkst(fsu), f2 = mkst(ff);
                size_t k2 = 0;
                std::string w2 = refs::replace(fsu, ff, to, false, &k2);
                Res r2 = run_str(limit, [&] { return call_replace(form, s2, f2, ff.c_str(), ts, tz, false); });
                fold_specific = replace_verdict(r2, fsu, ff, to, k2, w2).empty();
            }
            c.fail(strf("replace(%s):from=%s:to-%s:occ%s%s:%s", RFORMN[form], from.size() == 1 ? "1" : "multi",
                        to.size() < from.size() ? "shorter" : to.size() == from.size() ? "same-length" : "longer", k ? ">0" : "=0",
                        fold_specific ? ":ci" : "", tag.c_str()),
                   call + " " + obs + "; " + exp);
        }
    }
}

// ---------------------------------------------------------------- tokenize
static const char *const DELIMS[] = {",", ", ", "", nullptr /* default argument */, ",a", "\t ,",
                                     // delimiters >= 0x80: tokens are byte runs, whether or not they are whole characters
                                     "\xA9", "\xC3", ",\x80"};
enum { NDELIMS = 6, NDELIMS_ALL = 9 };

static void check_tokenize(Ctx &c, const std::string &subj, int di)
{
    static vf::GuardArena ga;
    ST::string s = mkst(subj);
    const char *d = DELIMS[di];
    std::string set = d ? d : " \t\r\n";  // ST_WHITESPACE as documented
    const char *dz = d ? ga.place(d, strlen(d) + 1) : nullptr;
    SV want = refs::tokenize(subj, set);
    Res r = run_vec([&] { return dz ? s.tokenize(dz) : s.tokenize(); });
    VF_COUNT("ops");
    VF_COUNT("validated");
    std::string tag;
    if (!r.o.ok()) tag = exc_tag(r);
    else if (r.pieces != want) tag = "tokens";
    else if (!r.term) tag = "terminator";
    else if (r.events) tag = "heap-event";
    if (tag.empty()) {
        out_count(K_TOKENIZE, ncls(want.size()));
    } else {
        out_count(K_TOKENIZE, r.runaway ? C_RUNAWAY : r.o.ok() ? C_WRONG : C_EXC);
        c.fail(strf("tokenize:delims=%s:%s", !d ? "default" : set.empty() ? "empty" : set.size() == 1 ? "1" : "multi", tag.c_str()),
               strf("tokenize(%s) on %s %s; expected %s", d ? vf::vis(set).c_str() : "<default>", vf::vis(subj).c_str(),
                    r.o.ok() ? ("returned " + vis_list(r.pieces)).c_str() : ("ended with " + r.why()).c_str(), vis_list(want).c_str()));
    }
    bool has_d = false, has_n = false;
    for (char ch : subj) (refs::in_set(set, ch) ? has_d : has_n) = true;
    if (has_d && has_n) c.nontrivial();
}

// ---------------------------------------------------------------- stage tables
static const uint64_t MAXES[] = {0, 1, 2, 3, UINT64_MAX - 1, UINT64_MAX, uint64_t(1) << 32, (uint64_t(1) << 32) + 1, uint64_t(1) << 31, uint64_t(1) << 63};
enum { NMAX = 8 };  // the first eight: 2^31 and 2^63 only in the long stages

static const char *const LONG_SEPS[] = {",", ",,", "a,", "aa"};
static const char *const LONG_TOS[] = {"", "b", "bb", "b,b", ",,,"};
static const uint64_t LONG_MAXES[] = {1, 3, UINT64_MAX, uint64_t(1) << 32};

static std::string binary_subject(const Segments &seg, const std::vector<unsigned> &lens, uint64_t idx)
{
    uint64_t i;
    unsigned n = lens[seg.locate(idx, i)];
    std::string s(n, 'a');
    for (unsigned j = 0; j < n; ++j)
        if (i >> j & 1) s[n - 1 - j] = ',';
    return s;
}

static void build(vf::Plan &plan, const vf::Opts &o)
{
    refs::selftest();
    const bool T = o.thorough();
    plan.rule =
        "case = one (subject, separator/pattern, max_splits | replacement | delimiter set) tuple, all distinct; non-trivial = the "
        "separator/pattern occurs in the subject and max_splits > 0 (so something is cut / substituted); tokenize: the subject contains "
        "both delimiter and non-delimiter bytes";
    plan.assumptions = {
        "termination is decided by a per-case watchdog (3 s) plus an allocation budget per call (single request <= 1 MiB, <= 40000 allocations); a call that exhausts the budget is reported as runaway",
        "C-string arguments denote the bytes up to their first NUL; separators/patterns containing NUL are exercised through the ST::string overloads only (DESIGN.md section 10)",
        "split(char) is only called with 0x01..0x7F (documented contract assertion)",
        "an empty separator / pattern must leave the text whole: split -> [text], replace -> text",
        "subjects longer than the sequence bound are covered by the complete {a,','}^n sweep around the small-string limit and by periodic contents of every length up to the stated bound"};

    // VF_REDUCED: the ASan+UBSan build of the quick tier keeps the stages whose subjects live on the heap at full size and
    // shrinks the in-object ones (what ASan adds is reads past a heap block)
#ifdef VF_REDUCED
    const bool reduced = true;
#else
    const bool reduced = false;
#endif
    const std::string SA("abA,\0", 5);
    const std::string RA("ab,", 3);
    const uint64_t nto = vf::seq_count(RA.size(), 3);
    const unsigned BOTH = 1u << R_SS | 1u << R_CC | 1u << R_UU | 1u << R_SS_V;

    // ---- split
    auto split_stage = [&](unsigned L, unsigned SEPL) {
        const uint64_t nsep = vf::seq_count(SA.size(), SEPL);
        auto &st = plan.stage(strf("split:{a,b,A,',',NUL}^<=%u x sep^<=%u x 8 max_splits x 4 forms x cs/ci", L, SEPL),
                              vf::seq_count(SA.size(), L) * nsep * NMAX,
                              [SA, L, SEPL, nsep](uint64_t idx, Ctx &c) {
                                  uint64_t max = MAXES[vf::take(idx, NMAX)];
                                  std::string sep = seq_string(vf::take(idx, nsep), SA, SEPL);
                                  bool nt = false;
                                  check_split(c, seq_string(idx, SA, L), sep, max, nt);
                                  if (nt) c.nontrivial();
                              },
                              [SA, L, SEPL, nsep](uint64_t idx) {
                                  uint64_t max = MAXES[vf::take(idx, NMAX)];
                                  std::string sep = seq_string(vf::take(idx, nsep), SA, SEPL);
                                  return strf("s=%s sep=%s max_splits=%s", vf::vis(seq_string(idx, SA, L)).c_str(), vf::vis(sep).c_str(), max_str(max).c_str());
                              });
        st.case_timeout_s = 3;
    };
    split_stage(reduced ? 3 : T ? 6 : 5, reduced ? 2 : 3);
    if (T) split_stage(7, 2);

    // ---- replace (all four overloads for subjects up to 3 bytes, the two pure ones beyond: the mixed overloads
    //      only convert one argument and forward)
    auto replace_stage = [&](unsigned L, unsigned FROML, unsigned TOL) {
        const uint64_t nfrom = vf::seq_count(SA.size(), FROML), ntol = vf::seq_count(RA.size(), TOL);
        auto &st = plan.stage(strf("replace:{a,b,A,',',NUL}^<=%u x from^<=%u x to{a,b,','}^<=%u x overloads x cs/ci", L, FROML, TOL),
                              vf::seq_count(SA.size(), L) * nfrom * ntol,
                              [SA, RA, L, FROML, TOL, nfrom, ntol, BOTH](uint64_t idx, Ctx &c) {
                                  std::string to = seq_string(vf::take(idx, ntol), RA, TOL);
                                  std::string from = seq_string(vf::take(idx, nfrom), SA, FROML);
                                  std::string subj = seq_string(idx, SA, L);
                                  bool nt = false;
                                  check_replace(c, subj, from, to, subj.size() <= 3 ? ALL_RFORMS : BOTH, nt);
                                  if (nt) c.nontrivial();
                              },
                              [SA, RA, L, FROML, TOL, nfrom, ntol](uint64_t idx) {
                                  std::string to = seq_string(vf::take(idx, ntol), RA, TOL);
                                  std::string from = seq_string(vf::take(idx, nfrom), SA, FROML);
                                  return strf("s=%s from=%s to=%s", vf::vis(seq_string(idx, SA, L)).c_str(), vf::vis(from).c_str(), vf::vis(to).c_str());
                              });
        st.case_timeout_s = 3;
    };
    (void)nto;
    replace_stage(reduced ? 3 : 5, reduced ? 2 : 3, reduced ? 2 : 3);
    if (T) replace_stage(6, 3, 2);

    // ---- tokenize
    const std::string KA("ab, \t\0", 6);
    const unsigned KL = reduced ? 4 : T ? 8 : 6;
    {
        auto &st = plan.stage(strf("tokenize:{a,b,',',SP,TAB,NUL}^<=%u x 6 delimiter sets", KL), vf::seq_count(KA.size(), KL) * NDELIMS,
                              [KA, KL](uint64_t idx, Ctx &c) {
                                  int di = (int)vf::take(idx, NDELIMS);
                                  check_tokenize(c, seq_string(idx, KA, KL), di);
                              },
                              [KA, KL](uint64_t idx) {
                                  int di = (int)vf::take(idx, NDELIMS);
                                  return strf("s=%s delims=%s", vf::vis(seq_string(idx, KA, KL)).c_str(),
                                              DELIMS[di] ? vf::vis(DELIMS[di], strlen(DELIMS[di])).c_str() : "<default>");
                              });
        st.case_timeout_s = 3;
    }

    {
        const std::string HA("a,\xC3\xA9\xA8\x80", 6);
        const unsigned HL = reduced ? 3 : T ? 6 : 5;
        auto &st = plan.stage(strf("tokenize:{a,',',C3,A9,A8,80}^<=%u x 9 delimiter sets (three with bytes >= 0x80; tokens need not be whole characters)", HL),
                              vf::seq_count(HA.size(), HL) * NDELIMS_ALL,
                              [HA, HL](uint64_t idx, Ctx &c) {
                                  int di = (int)vf::take(idx, NDELIMS_ALL);
                                  check_tokenize(c, seq_string(idx, HA, HL), di);
                              },
                              [HA, HL](uint64_t idx) {
                                  int di = (int)vf::take(idx, NDELIMS_ALL);
                                  return strf("s=%s delims=%s", vf::vis(seq_string(idx, HA, HL)).c_str(), DELIMS[di] ? vf::vis(DELIMS[di], strlen(DELIMS[di])).c_str() : "<default>");
                              });
        st.case_timeout_s = 3;
    }

    // ---- long subjects: complete {a,','}^n around the small-string limit
    {
        auto lens = std::make_shared<std::vector<unsigned>>(T ? std::vector<unsigned>{13, 14, 15, 16, 17, 18} : reduced ? std::vector<unsigned>{10} : std::vector<unsigned>{14, 15, 16});
        auto seg = std::make_shared<Segments>();
        for (unsigned n : *lens) seg->add(1ull << n);
        auto &st = plan.stage(strf("long:{a,','}^n n=%u..%u x (4 sep x 3 max split; 4 from x 5 to replace; tokenize)", lens->front(), lens->back()), seg->total(),
                              [lens, seg, BOTH](uint64_t idx, Ctx &c) {
                                  std::string subj = binary_subject(*seg, *lens, idx);
                                  bool nt = false;
                                  for (const char *sep : LONG_SEPS) {
                                      for (uint64_t m : LONG_MAXES) check_split(c, subj, sep, m, nt);
                                      for (const char *to : LONG_TOS) check_replace(c, subj, sep, to, BOTH, nt);
                                  }
                                  check_tokenize(c, subj, 0);
                                  if (nt) c.nontrivial();
                              },
                              [lens, seg](uint64_t idx) { return strf("s=%s", vf::vis(binary_subject(*seg, *lens, idx)).c_str()); });
        st.case_timeout_s = 3;
    }

    // ---- very long subjects: every length up to the bound (results cross the 256-byte stack buffer of the stream the
    //      pieces / replacement are assembled in, and every later doubling), periodic content
    {
        static const char *const PERIOD[] = {"a,", "aa,", "a,,b", ",ab"};
        static const char *const VSEPS[] = {",", ",,", "a,"};
        static const char *const VTOS[] = {"", "bb", "b,b"};
        const unsigned NMAXLEN = reduced ? 300 : T ? 4200 : 1100;
        auto mk = [](uint64_t idx) {
            unsigned pi = (unsigned)vf::take(idx, 4);
            size_t n = (size_t)idx, pl = strlen(PERIOD[pi]);
            std::string s(n, 'a');
            for (size_t k = 0; k < n; ++k) s[k] = PERIOD[pi][k % pl];
            return s;
        };
        auto &st = plan.stage(strf("very-long:4 periodic contents x every length 0..%u x (3 sep x 2 max split; 3 from x 3 to replace; tokenize)", NMAXLEN),
                              (uint64_t)4 * (NMAXLEN + 1),
                              [mk, BOTH](uint64_t idx, Ctx &c) {
                                  std::string subj = mk(idx);
                                  bool nt = false;
                                  for (const char *sep : VSEPS) {
                                      check_split(c, subj, sep, 3, nt);
                                      check_split(c, subj, sep, UINT64_MAX, nt);
                                      for (const char *to : VTOS) check_replace(c, subj, sep, to, BOTH, nt);
                                  }
                                  check_tokenize(c, subj, 0);
                                  if (nt) c.nontrivial();
                              },
                              [mk](uint64_t idx) {
                                  std::string s = mk(idx);
                                  return strf("s[%zu]=%s...", s.size(), vf::vis(s.substr(0, 12)).c_str());
                              });
        st.case_timeout_s = 5;
    }

    // ---- stages over whole UTF-8 characters (every string is valid UTF-8, so the const char* overloads, which
    //      validate their arguments / re-validate pieces, apply as well)
    auto unit_stage = [&](const char *label, std::vector<std::string> units, unsigned L, std::vector<std::string> tos) {
        auto U = std::make_shared<std::vector<std::string>>(std::move(units));
        auto TO = std::make_shared<std::vector<std::string>>(std::move(tos));
        auto chars = [U](uint64_t idx, unsigned len) {
            std::vector<unsigned> d;
            vf::seq_decode(idx, U->size(), len, d);
            std::string s;
            for (unsigned k : d) s += (*U)[k];
            return s;
        };
        const uint64_t np = vf::seq_count(U->size(), 2);
        auto &st = plan.stage(strf(label, L), vf::seq_count(U->size(), L) * np,
                              [chars, np, L, TO](uint64_t idx, Ctx &c) {
                                  std::string pat = chars(vf::take(idx, np), 2);
                                  std::string subj = chars(idx, L);
                                  bool nt = false;
                                  check_split(c, subj, pat, 1, nt, true);
                                  check_split(c, subj, pat, UINT64_MAX, nt, true);
                                  for (const std::string &to : *TO) check_replace(c, subj, pat, to, ALL_RFORMS, nt);
                                  if (nt) c.nontrivial();
                              },
                              [chars, np, L](uint64_t idx) {
                                  std::string pat = chars(vf::take(idx, np), 2);
                                  return strf("s=%s pattern=%s", vf::vis(chars(idx, L)).c_str(), vf::vis(pat).c_str());
                              });
        st.case_timeout_s = 3;
    };
    // case folding touches ASCII letters only: neighbours of A/Z/a/z, and U+00C1 / U+00E1 whose UTF-8 forms
    // (C3 81 / C3 A1) differ exactly in the 0x20 bit of the trail byte
    unit_stage("fold:{@,`,A,a,Z,z,[,{,U+00C1,U+00E1}^<=%u x pattern^<=2 (split max in {1,SIZE_MAX}; replace to in {\"\",\"-\",\"--\"})",
               {"@", "`", "A", "a", "Z", "z", "[", "{", "\xC3\x81", "\xC3\xA1"}, 3, {"", "-", "--"});
    unit_stage("utf8:{a,',',U+00E9,U+20AC}^<=%u x pattern^<=2 (split max in {1,SIZE_MAX}; replace to in {\"\",\"b\",U+00E9})",
               {"a", ",", "\xC3\xA9", "\xE2\x82\xAC"}, T ? 6 : 5, {"", "b", "\xC3\xA9"});
    // ---- long separators / patterns with a near-miss in the text (see longpat.h), every length across 8 / 16 / 32 / 64
    {
        auto cases = std::make_shared<std::vector<lp::LN>>(lp::cases(T));
        auto &st = plan.stage(strf("long patterns: lengths %s, one byte of the occurrence flipped in bit 5 / incremented at every position, 10 byte classes, "
                                   "3 contexts (split max in {1,SIZE_MAX}; replace to in {\"\",\"-\",pattern+\"!\"})", lp::lens_text(T)),
                              cases->size(),
                              [cases, BOTH](uint64_t i, Ctx &c) {
                                  std::string text, pat;
                                  lp::make((*cases)[i], text, pat, true);
                                  bool nt = false;
                                  check_split(c, text, pat, 1, nt);
                                  check_split(c, text, pat, UINT64_MAX, nt);
                                  check_replace(c, text, pat, "", BOTH, nt);
                                  check_replace(c, text, pat, "-", BOTH, nt);
                                  check_replace(c, text, pat, pat + "!", BOTH, nt);
                                  if (nt) c.nontrivial();
                              },
                              [cases](uint64_t i) {
                                  std::string text, pat;
                                  lp::make((*cases)[i], text, pat, true);
                                  return strf("s=%s pattern=%s", vf::vis(text).c_str(), vf::vis(pat).c_str());
                              });
        st.case_timeout_s = 10;
    }
    // null pointers where C text is expected: a null replacement is the empty replacement, a null pattern matches nothing
    {
        const std::string NA("ab,A", 4);
        plan.stage("replace with a null replacement / a null pattern pointer ({a,b,',',A}^<=5 x pattern^<=2 x overloads taking C text)", vf::seq_count(NA.size(), 5) * vf::seq_count(NA.size(), 2),
                   [NA](uint64_t i, Ctx &c) {
                       std::string from = seq_string(vf::take(i, vf::seq_count(NA.size(), 2)), NA, 2), subj = seq_string(i, NA, 5);
                       ST::string s = mkst(subj), fs = mkst(from);
                       auto bytes = [](const ST::string &x) { return std::string(x.c_str(), x.size()); };
                       const char *nul = nullptr;
                       const char8_t *nul8 = nullptr;
                       vf::Outcome o = vf::guard([&] {
                           for (int ci = 0; ci < 2; ++ci) {
                               ST::case_sensitivity_t cs = ci ? ST::case_insensitive : ST::case_sensitive;
                               std::string want = bytes(s.replace(fs, ST::string(), cs));
                               std::string g[6] = {bytes(s.replace(from.c_str(), nul, cs)), bytes(s.replace(fs, nul, cs)), bytes(s.replace((const char8_t *)from.c_str(), nul8, cs)),
                                                   bytes(s.replace(fs, nul8, cs)), bytes(s.replace(from.c_str(), nul, cs, ST::check_validity)), bytes(s.replace(fs, nul, cs, ST::check_validity))};
                               static const char *const GN[6] = {"const char*,null", "ST::string,null", "const char8_t*,null", "ST::string,null char8_t*", "const char*,null,cs,validation", "ST::string,null,cs,validation"};
                               VF_COUNT("validated");
                               for (int k = 0; k < 6; ++k)
                                   if (g[k] != want)
                                       c.fail(strf("replace(%s):null-replacement:differs-from-empty-replacement", GN[k]),
                                              strf("s=%s from=%s: %s, with an empty replacement %s", vf::vis(subj).c_str(), vf::vis(from).c_str(), vf::vis(g[k]).c_str(), vf::vis(want).c_str()));
                               std::string h[3] = {bytes(s.replace(nul, "x", cs)), bytes(s.replace(nul, fs, cs)), bytes(s.replace(nul8, u8"x", cs))};
                               VF_COUNT("validated");
                               for (int k = 0; k < 3; ++k)
                                   if (h[k] != subj) c.fail("replace(null pattern):text-changed", strf("s=%s: %s", vf::vis(subj).c_str(), vf::vis(h[k]).c_str()));
                           }
                       });
                       if (!o.ok()) c.fail(strf("replace(null pointer):%s", vf::outkind_name(o.kind)), o.str());
                       if (!from.empty() && subj.find(from) != std::string::npos) c.nontrivial();
                   },
                   [NA](uint64_t i) {
                       std::string from = seq_string(vf::take(i, vf::seq_count(NA.size(), 2)), NA, 2);
                       return strf("s=%s from=%s", vf::vis(seq_string(i, NA, 5)).c_str(), vf::vis(from).c_str());
                   });
    }
    {
        auto cases = std::make_shared<std::vector<lp::LN>>(lp::cases_very_long());
        auto &st = plan.stage("very long patterns: lengths {255,256,257,258,300,1030}, one byte perturbed at positions next to the ends, the middle and 254..257",
                              cases->size(),
                              [cases, BOTH](uint64_t i, Ctx &c) {
                                  std::string text, pat;
                                  lp::make((*cases)[i], text, pat, true);
                                  bool nt = false;
                                  check_split(c, text, pat, UINT64_MAX, nt);
                                  check_replace(c, text, pat, "-", BOTH, nt);
                                  if (nt) c.nontrivial();
                              },
                              [cases](uint64_t i) {
                                  std::string text, pat;
                                  lp::make((*cases)[i], text, pat, true);
                                  return strf("s=%s pattern=%s", vf::vis(text.substr(0, 60)).c_str(), vf::vis(pat.substr(0, 60)).c_str());
                              });
        st.case_timeout_s = 20;
    }
    vf_early::add_stage(plan);
}

VF_MAIN("C09", build)
