// C05 - buffers keep size, content, terminator and exclusive ownership over any history.
// Explicit-state BFS (histx) over a pool of real ST::buffer<T> objects, once per element
// type, to a FIXPOINT: the value alphabet is finite, so the set of reachable concrete states
// (object bytes + heap contents, addresses abstracted to ownership facts) is finite.
#define VF_MAIN_TU
#include "early.h"
#include "verif.h"
#include "alloc.h"
#include "histx.h"
#include "st_charbuffer.h"
#include "early_battery.h"

using hx::Fail;
using hx::Fails;
using vf::strf;

template <class T>
struct TypeName;
template <>
struct TypeName<char> {
    static const char *get() { return "char"; }
};
template <>
struct TypeName<wchar_t> {
    static const char *get() { return "wchar_t"; }
};
template <>
struct TypeName<char16_t> {
    static const char *get() { return "char16_t"; }
};
template <>
struct TypeName<char32_t> {
    static const char *get() { return "char32_t"; }
};

enum OpKind { CTOR_DEFAULT, CTOR_PTR, CTOR_FILL, CTOR_COPY, CTOR_MOVE, DTOR, ASSIGN_COPY, ASSIGN_MOVE, ALLOCATE, ALLOCATE_FILL, CLEAR, CTOR_FILL0, ALLOCATE_FILL0, ALLOCATE_FILL_OWN };
struct Op {
    OpKind k;
    int i, j;  // slots
    size_t n;  // length
};

template <class T>
struct BufSys {
    typedef ST::buffer<T> B;
    typedef std::basic_string<T> Str;
    static constexpr size_t LL = B::local_length;
    int NS;
    std::vector<hx::Slot<B>> slots;
    std::vector<Op> ops;
    std::vector<size_t> lens;
    std::string nm;
    uint64_t n_reads = 0, n_checked = 0;
    std::vector<std::string> sample_list;

    BufSys(int nslots, bool reduced = false) : NS(nslots), slots(nslots)
    {
        nm = strf("buffer<%s> x %d slots%s", TypeName<T>::get(), nslots, reduced ? " (reduced alphabet)" : "");
        lens = {0, 1, LL - 1, LL, LL + 1, 3 * LL};
        if (reduced) lens = {1, LL};
        for (int i = 0; i < NS; ++i) ops.push_back(Op{CTOR_DEFAULT, i, -1, 0});
        for (int i = 0; i < NS; ++i)
            for (size_t n : lens) ops.push_back(Op{CTOR_PTR, i, -1, n});
        for (int i = 0; i < NS; ++i)
            for (size_t n : {size_t(0), LL - 1, LL + 1})
                if (!reduced) {
                    ops.push_back(Op{CTOR_FILL, i, -1, n});
                    if (n) ops.push_back(Op{CTOR_FILL0, i, -1, n});  // the fill value is the zero unit
                }
        for (int i = 0; i < NS; ++i)
            for (int j = 0; j < NS; ++j)
                if (i != j) {
                    ops.push_back(Op{CTOR_COPY, i, j, 0});
                    ops.push_back(Op{CTOR_MOVE, i, j, 0});
                }
        for (int i = 0; i < NS; ++i) ops.push_back(Op{DTOR, i, -1, 0});
        for (int i = 0; i < NS; ++i)
            for (int j = 0; j < NS; ++j) {
                ops.push_back(Op{ASSIGN_COPY, i, j, 0});
                ops.push_back(Op{ASSIGN_MOVE, i, j, 0});
            }
        for (int i = 0; i < NS; ++i)
            for (size_t n : lens) ops.push_back(Op{ALLOCATE, i, -1, n});
        for (int i = 0; i < NS; ++i)
            for (size_t n : {size_t(0), LL - 1, LL})
                if (!reduced) {
                    ops.push_back(Op{ALLOCATE_FILL, i, -1, n});
                    if (n) ops.push_back(Op{ALLOCATE_FILL0, i, -1, n});
                }
        for (int i = 0; i < NS; ++i) ops.push_back(Op{CLEAR, i, -1, 0});
        vf::tracking_begin();
    }
    ~BufSys() { reset_world(); }

    const char *name() const { return nm.c_str(); }
    size_t op_count() const { return ops.size(); }

    // value of length n, variant w (element k): depends on n, k and w; non-zero except for the embedded zero of variant 0
    static Str value(size_t n, unsigned w)
    {
        Str s(n, T());
        for (size_t k = 0; k < n; ++k) s[k] = (T)(0x21 + ((n * 5 + k * 7 + w * 11) % 89));
        if (w == 0 && n >= 3) s[1] = T();  // constructor values carry an embedded zero unit followed by non-zero ones
        return s;
    }

    bool enabled(size_t id) const
    {
        const Op &o = ops[id];
        switch (o.k) {
        case CTOR_DEFAULT:
        case CTOR_PTR:
        case CTOR_FILL0:
        case CTOR_FILL: return !slots[o.i].alive;
        case CTOR_COPY:
        case CTOR_MOVE: return !slots[o.i].alive && slots[o.j].alive;
        case DTOR:
        case ALLOCATE:
        case ALLOCATE_FILL_OWN: return slots[o.i].alive && slots[o.i].obj()->size() > 0;
        case ALLOCATE_FILL0:
        case ALLOCATE_FILL:
        case CLEAR: return slots[o.i].alive;
        case ASSIGN_COPY:
        case ASSIGN_MOVE: return slots[o.i].alive && slots[o.j].alive;
        }
        return false;
    }
    std::string op_name(size_t id) const
    {
        const Op &o = ops[id];
        switch (o.k) {
        case CTOR_DEFAULT: return strf("new(s%d) buffer()", o.i);
        case CTOR_PTR: return strf("new(s%d) buffer(ptr,%zu)", o.i, o.n);
        case CTOR_FILL: return strf("new(s%d) buffer(%zu,'x')", o.i, o.n);
        case CTOR_FILL0: return strf("new(s%d) buffer(%zu,NUL)", o.i, o.n);
        case ALLOCATE_FILL0: return strf("s%d.allocate(%zu,NUL)", o.i, o.n);
        case ALLOCATE_FILL_OWN: return strf("s%d.allocate(%zu, s%d[0])", o.i, o.n, o.i);
        case CTOR_COPY: return strf("new(s%d) buffer(s%d)", o.i, o.j);
        case CTOR_MOVE: return strf("new(s%d) buffer(std::move(s%d))", o.i, o.j);
        case DTOR: return strf("s%d.~buffer()", o.i);
        case ASSIGN_COPY: return strf("s%d = s%d", o.i, o.j);
        case ASSIGN_MOVE: return strf("s%d = std::move(s%d)", o.i, o.j);
        case ALLOCATE: return strf("s%d.allocate(%zu)+fill", o.i, o.n);
        case ALLOCATE_FILL: return strf("s%d.allocate(%zu,'y')", o.i, o.n);
        case CLEAR: return strf("s%d.clear()", o.i);
        }
        return "?";
    }

    void reset_world()
    {
        for (auto &s : slots) {
            // objects are abandoned, not destroyed: their blocks are released by tracking_reset()
            s.alive = false;
            s.poison();
        }
        vf::tracking_reset();
        vf::events_reset();
    }
    void reset() { reset_world(); }

    // ---------------------------------------------------------------- concrete-state inspection
    enum PKind { P_LOCAL, P_HEAP, P_HEAP_SHARED, P_INSLOT, P_FREED, P_HEAP_INTERIOR, P_OTHER };
    struct Insp {
        PKind kind;
        int other = -1;       // slot pointed into / shared with
        long off = 0;
        size_t block_size = 0;
        bool block_array = true;
    };
    Insp inspect(int s) const
    {
        const B *b = slots[s].obj();
        Insp r;
        const void *p = b->m_chars;
        if (p == (const void *)b->m_data) {
            r.kind = P_LOCAL;
            return r;
        }
        for (int k = 0; k < NS; ++k)
            if (slots[k].contains(p)) {
                r.kind = P_INSLOT;
                r.other = k;
                r.off = (const unsigned char *)p - slots[k].mem;
                return r;
            }
        const vf::Block *blk = vf::find_block(p);
        if (!blk) {
            r.kind = P_OTHER;
            return r;
        }
        r.block_size = blk->size;
        r.block_array = blk->array;
        if (!blk->live) {
            r.kind = P_FREED;
            return r;
        }
        if (p != blk->ptr) {
            r.kind = P_HEAP_INTERIOR;
            return r;
        }
        r.kind = P_HEAP;
        for (int k = 0; k < NS; ++k)
            if (k != s && slots[k].alive && (const void *)slots[k].obj()->m_chars == p) {
                r.kind = P_HEAP_SHARED;
                r.other = k;
            }
        return r;
    }
    // "" if slot s is a valid, exclusively owning buffer; otherwise what is wrong (content is only read when this is "")
    std::string validity(int s) const
    {
        const B *b = slots[s].obj();
        Insp in = inspect(s);
        size_t sz = b->m_size;
        if (sz < LL) {
            if (in.kind != P_LOCAL)
                return strf("size %zu is below the in-object limit %zu but data() %s", sz, (size_t)LL, pk(in).c_str());
        } else {
            if (in.kind != P_HEAP) return strf("size %zu needs heap storage but data() %s", sz, pk(in).c_str());
            if (in.block_size < (sz + 1) * sizeof(T))
                return strf("heap block of %zu bytes is too small for %zu elements + terminator", in.block_size, sz);
            if (!in.block_array) return "heap block was not obtained from new[]";
        }
        if (b->m_chars[sz] != 0) return strf("no terminating NUL after the last element (size %zu)", sz);
        return "";
    }
    static std::string pk(const Insp &in)
    {
        switch (in.kind) {
        case P_LOCAL: return "points to its own in-object array";
        case P_HEAP: return "points to a live heap block of its own";
        case P_HEAP_SHARED: return strf("points to a heap block that slot s%d also uses", in.other);
        case P_INSLOT: return strf("points into object s%d (offset %ld)", in.other, in.off);
        case P_FREED: return "points to a heap block that has been freed";
        case P_HEAP_INTERIOR: return "points into the middle of a heap block";
        default: return "points to memory that is neither its own array nor a block from new[]";
        }
    }
    Str content(int s) const
    {
        const B *b = slots[s].obj();
        return Str(b->m_chars, b->m_size);
    }
    static std::string show(const Str &v)
    {
        std::string o = strf("[%zu]\"", v.size());
        for (size_t i = 0; i < v.size() && i < 60; ++i) o += (char)(v[i] >= 0x20 && v[i] < 0x7f ? v[i] : '?');
        return o + "\"";
    }

    std::string key() const
    {
        std::string k;
        for (int s = 0; s < NS; ++s) {
            if (!slots[s].alive) {
                k += "D|";
                continue;
            }
            const B *b = slots[s].obj();
            Insp in = inspect(s);
            k += strf("z%zu,k%d", b->m_size, (int)in.kind);
            if (in.kind == P_INSLOT || in.kind == P_HEAP_SHARED) k += strf("@%d+%ld", in.other, in.off);
            if (in.kind == P_HEAP || in.kind == P_HEAP_SHARED) {
                k += strf(",b%zu:", in.block_size);
                size_t nb = std::min(in.block_size, (b->m_size + 1) * sizeof(T));
                k += hx::hexbytes(b->m_chars, nb);
            }
            k += ",d:" + hx::hexbytes(b->m_data, sizeof b->m_data) + "|";
        }
        return k;
    }
    bool nontrivial() const
    {
        int alive = 0, heap = 0;
        for (int s = 0; s < NS; ++s)
            if (slots[s].alive) {
                ++alive;
                if (slots[s].obj()->m_size >= LL) ++heap;
            }
        return alive >= 2 && heap >= 1;
    }

    // live tracked blocks must be exactly the blocks owned by live heap-mode objects
    std::string leak_check() const
    {
        size_t owned = 0;
        for (int s = 0; s < NS; ++s)
            if (slots[s].alive) {
                Insp in = inspect(s);
                if (in.kind == P_HEAP) ++owned;
            }
        size_t live = vf::live_tracked();
        if (live != owned) return strf("%zu heap block(s) are live but %zu are owned by live objects", live, owned);
        return "";
    }

    struct Snap {
        bool alive;
        std::string raw, heap;
        const void *data;
    };
    Snap snap(int s) const
    {
        Snap r;
        r.alive = slots[s].alive;
        r.data = nullptr;
        if (!r.alive) return r;
        const B *b = slots[s].obj();
        r.raw.assign((const char *)slots[s].mem, sizeof(B));
        r.data = b->m_chars;
        Insp in = inspect(s);
        if (in.kind == P_HEAP) r.heap.assign((const char *)b->m_chars, std::min(in.block_size, (b->m_size + 1) * sizeof(T)));
        return r;
    }
    bool same(const Snap &a, int s) const
    {
        Snap b = snap(s);
        return a.alive == b.alive && a.raw == b.raw && a.heap == b.heap && a.data == b.data;
    }

    // ---------------------------------------------------------------- transitions
    void apply(size_t id, bool checked, Fails &f)
    {
        const Op &o = ops[id];
        std::vector<Snap> before;
        Str src_val;
        if (checked) {
            ++n_checked;
            for (int s = 0; s < NS; ++s) before.push_back(snap(s));
            if (o.j >= 0 && slots[o.j].alive) src_val = content(o.j);  // every explored state has been validated
            vf::events_reset();
        }
        B *bi = slots[o.i].obj();
        B *bj = o.j >= 0 ? slots[o.j].obj() : nullptr;
        std::string opn = checked ? op_name(id) : std::string();
        const char *okind = "";
        Str expect;
        bool expect_value = true;
        // only the library call itself runs inside an OpScope (= tracked allocations); harness values are built outside
#define LIB(stmt)           \
    do {                    \
        vf::OpScope _sc;    \
        stmt;               \
    } while (0)
        vf::Outcome oc = vf::guard([&] {
            switch (o.k) {
            case CTOR_DEFAULT:
                LIB(new (bi) B());
                slots[o.i].alive = true;
                okind = "default-ctor";
                break;
            case CTOR_PTR: {
                Str v = value(o.n, 0);
                expect = v;
                // the source is a slice of a larger array: the element behind it is not zero (the constructor copies size elements and
                // writes its own terminator)
                Str larger = v + Str(3, (T)0x5A);
                LIB(new (bi) B(larger.data(), v.size()));
                slots[o.i].alive = true;
                okind = "ptr-ctor";
                break;
            }
            case CTOR_FILL:
                expect = Str(o.n, (T)'x');
                LIB(new (bi) B(o.n, (T)'x'));
                slots[o.i].alive = true;
                okind = "fill-ctor";
                break;
            case CTOR_FILL0:
                expect = Str(o.n, T());
                LIB(new (bi) B(o.n, T()));
                slots[o.i].alive = true;
                okind = "fill-ctor";
                break;
            case ALLOCATE_FILL0:
                expect = Str(o.n, T());
                LIB(bi->allocate(o.n, T()));
                okind = "allocate-fill";
                break;
            case ALLOCATE_FILL_OWN:
                expect = Str(o.n, (*bi)[0]);
                LIB(bi->allocate(o.n, (*bi)[0]));
                okind = "allocate-fill(own element)";
                break;
            case CTOR_COPY:
                expect = src_val;
                LIB(new (bi) B(*static_cast<const B *>(bj)));
                slots[o.i].alive = true;
                okind = "copy-ctor";
                break;
            case CTOR_MOVE:
                expect = src_val;
                LIB(new (bi) B(std::move(*bj)));
                slots[o.i].alive = true;
                okind = "move-ctor";
                break;
            case DTOR:
                LIB(bi->~B());
                slots[o.i].alive = false;
                slots[o.i].poison();
                okind = "dtor";
                break;
            case ASSIGN_COPY:
                expect = src_val;
                LIB(*bi = *static_cast<const B *>(bj));
                okind = o.i == o.j ? "self-copy-assign" : "copy-assign";
                break;
            case ASSIGN_MOVE:
                expect = src_val;
                LIB(*bi = std::move(*bj));
                if (o.i == o.j) expect_value = false;  // self-move: validity only (value adopted)
                okind = o.i == o.j ? "self-move-assign" : "move-assign";
                break;
            case ALLOCATE: {
                Str v = value(o.n, 1);
                expect = v;
                LIB(bi->allocate(o.n));
                okind = "allocate";
                if (checked) {
                    std::string bad = validity(o.i);
                    if (bad.empty() && bi->size() != o.n) bad = strf("size() is %zu after allocate(%zu)", bi->size(), o.n);
                    if (!bad.empty()) {
                        f.push_back(Fail{strf("c05:%s:after-allocate-before-fill:%s", TypeName<T>::get(), cls(bad).c_str()), opn + ": " + bad});
                        return;
                    }
                }
                // "a deterministic fill": the caller writes its value through data()
                if (bi->size() == o.n)
                    for (size_t k = 0; k < o.n; ++k) bi->data()[k] = v[k];
                break;
            }
            case ALLOCATE_FILL:
                expect = Str(o.n, (T)'y');
                LIB(bi->allocate(o.n, (T)'y'));
                okind = "allocate-fill";
                break;
            case CLEAR:
                LIB(bi->clear());
                okind = "clear";
                break;
            }
        });
        if (!checked) return;
        if (!f.empty()) return;
        auto fail = [&](const std::string &what, const std::string &detail) {
            f.push_back(Fail{strf("c05:%s:%s:%s", TypeName<T>::get(), okind, what.c_str()), opn + ": " + detail});
        };
        if (!oc.ok()) {
            fail(vf::outkind_name(oc.kind), oc.str());
            return;
        }
        if (vf::events_total()) fail("heap-event", vf::g_alloc.first_event);
        for (int s = 0; s < NS; ++s) {
            std::string fd = slots[s].fence_damage();
            if (!fd.empty()) fail("write-outside-object", strf("s%d: %s", s, fd.c_str()));
        }
        // every live object must be valid and exclusively owning
        for (int s = 0; s < NS; ++s)
            if (slots[s].alive) {
                std::string bad = validity(s);
                if (!bad.empty()) {
                    const char *role = s == o.i ? "target" : s == o.j ? (o.k == CTOR_MOVE || o.k == ASSIGN_MOVE ? "moved-from" : "source") : "bystander";
                    fail(strf("%s-invalid:%s", role, cls(bad).c_str()), strf("s%d (%s) %s", s, role, bad.c_str()));
                }
            }
        if (!f.empty()) return;
        std::string leak = leak_check();
        if (!leak.empty()) {
            fail("leak-or-lost-block", leak);
            return;
        }
        // value of the target
        if (slots[o.i].alive && expect_value && o.k != DTOR) {
            Str got = content(o.i);
            if (got != expect) fail("wrong-value", strf("s%d holds %s, expected %s", o.i, show(got).c_str(), show(expect).c_str()));
        }
        // nothing else may change: bytes, heap content, data() pointer
        for (int s = 0; s < NS; ++s) {
            if (s == o.i) continue;
            if (s == o.j && (o.k == CTOR_MOVE || o.k == ASSIGN_MOVE)) continue;
            if (!same(before[s], s))
                fail(s == o.j ? "source-changed" : "bystander-changed", strf("s%d was modified by an operation that does not involve it as a target", s));
        }
    }
    // classify a validity message into a short stable token for signatures
    static std::string cls(const std::string &bad)
    {
        if (bad.find("points into object") != std::string::npos) return "data-points-into-another-object";
        if (bad.find("also uses") != std::string::npos) return "heap-block-shared";
        if (bad.find("has been freed") != std::string::npos) return "data-points-to-freed-block";
        if (bad.find("terminating NUL") != std::string::npos) return "no-terminator";
        if (bad.find("too small") != std::string::npos) return "block-too-small";
        if (bad.find("size() is") != std::string::npos) return "wrong-size";
        if (bad.find("below the in-object limit") != std::string::npos) return "short-content-not-in-object";
        if (bad.find("needs heap storage") != std::string::npos) return "long-content-not-on-own-heap-block";
        return "invalid";
    }

    static int sgn(long v) { return v < 0 ? -1 : v > 0 ? 1 : 0; }

    void on_new_state(Fails &f)
    {
        auto fail = [&](const std::string &what, const std::string &detail) {
            f.push_back(Fail{strf("c05:%s:read:%s", TypeName<T>::get(), what.c_str()), detail});
        };
        for (int s = 0; s < NS; ++s) {
            if (!slots[s].alive) continue;
            const B &b = *slots[s].obj();
            Str v = content(s);
            vf::Outcome oc = vf::guard([&] {
                n_reads += 12;
                if (b.size() != v.size()) fail("size", "size() differs from stored size");
                if (b.empty() != v.empty()) fail("empty", "empty() wrong");
                if (b.data() != b.c_str()) fail("c_str", "c_str() != data()");
                static const T subst[2] = {(T)'S', 0};
                if (b.c_str(subst) != (v.empty() ? subst : b.data())) fail("c_str-substitute", "c_str(substitute) wrong");
                for (size_t k = 0; k < v.size(); ++k)
                    if (b.at(k) != v[k] || b[k] != v[k]) fail("at", strf("at(%zu) wrong", k));
                bool threw = false;
                try {
                    (void)b.at(v.size());
                } catch (const std::out_of_range &) {
                    threw = true;
                }
                if (!threw) fail("at-end", "at(size()) did not throw std::out_of_range");
                if (!v.empty() && (b.front() != v.front() || b.back() != v.back())) fail("front-back", "front()/back() wrong");
                if (v.empty() && (b.front() != 0 || b.back() != 0)) fail("front-back-empty", "front()/back() of an empty buffer is not the terminator");
                if (Str(b.begin(), b.end()) != v || Str(b.cbegin(), b.cend()) != v) fail("iterators", "begin()..end() wrong");
                Str r(b.rbegin(), b.rend());
                if (r != Str(v.rbegin(), v.rend())) fail("reverse-iterators", "rbegin()..rend() wrong");
                if (b.to_std_string() != v) fail("to_std_string", "to_std_string() wrong");
                if (!v.empty()) {
                    // allocate(n, fill) with the fill value taken from the buffer itself, on a copy (as an operation of the explored
                    // world it would multiply the value space): the argument is a value, whatever happens to the old storage
                    for (size_t n : {size_t(LL - 1), size_t(LL), size_t(2 * LL)}) {
                        B t(b);
                        LIB(t.allocate(n, t[0]));
                        n_reads += 1;
                        if (Str(t.data(), t.size()) != Str(n, v[0])) fail("allocate-fill(own element)", strf("copy.allocate(%zu, copy[0]) does not hold %zu copies of the first element", n, n));
                        LIB(t.allocate(n, t.back()));
                        if (Str(t.data(), t.size()) != Str(n, v[0])) fail("allocate-fill(own element)", strf("copy.allocate(%zu, copy.back()) wrong", n));
                    }
                }
                {
                    // the non-const accessors of the same (live) object; nothing is written through them
                    B &mb = *slots[s].obj();
                    n_reads += 8;
                    if (!v.empty() && (mb[0] != v[0] || mb.at(v.size() - 1) != v.back() || mb.front() != v.front() || mb.back() != v.back()))
                        fail("non-const-accessors", "operator[] / at() / front() / back() of the non-const object wrong");
                    if (Str(mb.begin(), mb.end()) != v) fail("non-const-iterators", "begin()..end() of the non-const object wrong");
                    if (Str(mb.rbegin(), mb.rend()) != Str(v.rbegin(), v.rend()) || Str(b.crbegin(), b.crend()) != Str(v.rbegin(), v.rend()))
                        fail("reverse-iterators", "rbegin()..rend() / crbegin()..crend() wrong");
                    if (mb.data() != b.data() || mb.c_str() != b.c_str()) fail("data-pointers", "data() of the const and the non-const object differ");
                    if (b.empty() != v.empty() || (b == ST::null) != v.empty() || (b != ST::null) == v.empty() || (ST::null == b) != v.empty() ||
                        (ST::null != b) == v.empty())
                        fail("empty", "empty() / comparison with ST::null wrong");
                }
                if (Str(b.view()) != v) fail("view", "view() wrong");
                if (v.size() >= 2 && Str(b.view(1, v.size() - 2)) != v.substr(1, v.size() - 2)) fail("view-range", "view(1,n-2) wrong");
                const size_t zpos = v.find(T());  // first zero unit of the content (zero-filled values have one)
                const size_t clen = zpos == Str::npos ? v.size() : zpos;
                if (B::strlen(b.c_str()) != clen) fail("strlen", "strlen(c_str()) is not the length up to the first zero unit");
                if (sgn(b.compare(b.c_str())) != (clen == v.size() ? 0 : 1)) fail("compare-cstr", "compare(c_str()) wrong");
                if (sgn(b.compare((const T *)nullptr)) != (v.empty() ? 0 : 1)) fail("compare-null", "compare(nullptr) wrong");
                for (int t = 0; t < NS; ++t) {
                    if (!slots[t].alive) continue;
                    const B &c = *slots[t].obj();
                    Str w = content(t);
                    int want = sgn(v.compare(w));
                    const size_t wz = w.find(T());
                    const Str wc = wz == Str::npos ? w : w.substr(0, wz);  // what a C-string pointer to w denotes
                    const int wantc = sgn(v.compare(wc));
                    n_reads += 8;
                    if (sgn(b.compare(c)) != want) fail("compare", strf("compare(s%d,s%d) sign wrong", s, t));
                    if (sgn(b.compare(c.c_str())) != wantc) fail("compare-cstr", strf("compare(s%d, s%d.c_str()) sign wrong", s, t));
                    if ((b == c) != (want == 0) || (b != c) != (want != 0) || (b < c) != (want < 0)) fail("operators", "==, != or < disagrees with compare");
                    for (size_t n : {size_t(0), size_t(1), v.size(), v.size() + 1, (size_t)-1}) {
                        int wn = sgn(v.substr(0, std::min(n, v.size())).compare(w.substr(0, std::min(n, w.size()))));
                        if (sgn(b.compare_n(c, n)) != wn) fail("compare_n", strf("compare_n(s%d,s%d,%zu) sign wrong", s, t, n));
                        int wnc = sgn(v.substr(0, std::min(n, v.size())).compare(wc.substr(0, std::min(n, wc.size()))));
                        if (sgn(b.compare_n(c.c_str(), n)) != wnc) fail("compare_n-cstr", strf("compare_n(s%d,s%d.c_str(),%zu) sign wrong", s, t, n));
                    }
                }
            });
            if (!oc.ok()) fail(vf::outkind_name(oc.kind), oc.str());
        }
        if (sample_list.size() < 6 && nontrivial()) sample_list.push_back(key().substr(0, 300));
    }
    void samples(std::vector<std::string> &out) const { out = sample_list; }
    void counters(std::map<std::string, uint64_t> &c) const
    {
        c["reads"] += n_reads;
        c["checked-transitions"] += n_checked;
    }
};


// ---------------------------------------------------------------------------------------------- very large buffers
// The property has no upper bound on the size.  Sizes at which a size_t no longer fits an int / a 32-bit integer are
// reached with lazily mapped blocks (alloc.h: address space only): every operation that does not have to touch all
// elements is run on buffers of 2^31 and 2^32 elements and checked for ownership, size, terminator and release.
template <class T>
struct HugeSys {
    typedef ST::buffer<T> B;
    std::string nm;
    bool thorough;
    uint64_t n_checks = 0, n_scen = 0;
    HugeSys(bool t) : thorough(t) { nm = strf("buffer<%s>: 2^31 / 2^32 elements (lazily mapped)", TypeName<T>::get()); }
    const char *name() const { return nm.c_str(); }
    size_t op_count() const { return 0; }
    bool enabled(size_t) const { return false; }
    std::string op_name(size_t) const { return ""; }
    void reset() {}
    void apply(size_t, bool, hx::Fails &) {}
    std::string key() const { return "huge"; }
    bool nontrivial() const { return true; }

    struct Slot {
        alignas(16) unsigned char fence0[32];
        alignas(16) unsigned char mem[sizeof(B)];
        unsigned char fence1[32];
        B *obj() { return reinterpret_cast<B *>(mem); }
        bool inside(const void *p) const { return (const unsigned char *)p >= mem && (const unsigned char *)p < mem + sizeof(B); }
    };

    void scenario(size_t N, hx::Fails &f)
    {
        ++n_scen;
        const char *tn = TypeName<T>::get();
        auto fail = [&](const char *step, const std::string &what) {
            f.push_back(hx::Fail{strf("c05:%s:huge:%s:%s", tn, step, what.c_str()), strf("buffer<%s> with %zu elements, %s: %s", tn, N, step, what.c_str())});
        };
        Slot *s0 = new Slot, *s1 = new Slot;
        memset(s0, 0xCD, sizeof *s0);
        memset(s1, 0xCD, sizeof *s1);
        vf::events_reset();
        vf::huge_reset();
        const size_t saved_max = vf::g_alloc.max_request;
        vf::g_alloc.max_request = ~size_t(0) / 2;
        vf::g_alloc.huge_lazy = true;
        auto valid_empty = [&](B *b, Slot *sl, const char *step, const char *who) {
            ++n_checks;
            if (b->size() != 0) fail(step, strf("%s:size-not-zero", who));
            else if (!sl->inside(b->data())) fail(step, strf("%s:data-not-in-object", who));
            else if (b->data()[0] != 0) fail(step, strf("%s:no-terminator", who));
        };
        // after a move assignment the source is only required to be a valid object (the library swaps the two values)
        auto valid_any = [&](B *b, Slot *sl, const char *step, const char *who) {
            ++n_checks;
            if (b->size() < B::local_length) {
                if (!sl->inside(b->data())) fail(step, strf("%s:short-content-not-in-object", who));
                else if (b->data()[b->size()] != 0) fail(step, strf("%s:no-terminator", who));
            } else {
                const vf::AllocState::Huge *h = vf::find_huge(b->data());
                if (!h) fail(step, strf("%s:long-content-not-on-a-live-block", who));
                else if (h->size < (b->size() + 1) * sizeof(T)) fail(step, strf("%s:block-too-small", who));
                else if (b->data()[b->size()] != 0) fail(step, strf("%s:no-terminator", who));
            }
        };
        auto owns = [&](B *b, const void *p, const char *step, const char *who) {
            ++n_checks;
            if (b->size() != N) fail(step, strf("%s:size", who));
            else if ((const void *)b->data() != p) fail(step, strf("%s:does-not-own-the-block", who));
            else if (b->data()[N] != 0) fail(step, strf("%s:no-terminator", who));
        };
        auto live = [&](size_t want, const char *step) {
            ++n_checks;
            if (vf::live_huge() != want) fail(step, strf("%zu-large-blocks-live-expected-%zu", vf::live_huge(), want));
            if (vf::events_total()) fail(step, std::string("heap-event:") + vf::g_alloc.first_event);
        };
        vf::Outcome oc = vf::guard([&] {
            hx::note_phase(strf("huge %zu: allocate", N).c_str());
            B *b = new (s0->mem) B();
            b->allocate(N);
            const void *p = b->data();
            if (!vf::find_huge(p)) fail("allocate", "data-not-the-allocated-block");
            owns(b, p, "allocate", "target");
            live(1, "allocate");
            ++n_checks;
            if (b->empty() || b->end() - b->begin() != (ptrdiff_t)N || &b->back() != b->data() + (N - 1)) fail("allocate", "accessors");
            hx::note_phase(strf("huge %zu: move-ctor", N).c_str());
            B *m = new (s1->mem) B(std::move(*b));
            owns(m, p, "move-ctor", "target");
            valid_empty(b, s0, "move-ctor", "moved-from");
            live(1, "move-ctor");
            b->~B();
            live(1, "destroy moved-from");
            hx::note_phase(strf("huge %zu: move-assign", N).c_str());
            static const T AB[3] = {T('a'), T('b'), T(0)};
            B *c = new (s0->mem) B(AB, 2);
            *c = std::move(*m);
            owns(c, p, "move-assign", "target");
            valid_any(m, s1, "move-assign", "moved-from");
            live(1, "move-assign");
            hx::note_phase(strf("huge %zu: clear", N).c_str());
            c->clear();
            valid_empty(c, s0, "clear", "target");
            live(0, "clear");
            hx::note_phase(strf("huge %zu: destroy", N).c_str());
            c->allocate(N);
            owns(c, c->data(), "allocate again", "target");
            live(1, "allocate again");
            c->~B();
            live(0, "destroy");
            m->~B();
            hx::note_phase(strf("huge %zu: shrink", N).c_str());
            B *d = new (s0->mem) B();
            d->allocate(N);
            d->allocate(3);
            ++n_checks;
            if (d->size() != 3 || !s0->inside(d->data()) || d->data()[3] != 0) fail("allocate(3) over a large buffer", "target-invalid");
            live(0, "allocate(3) over a large buffer");
            d->allocate(N);
            B *e = new (s1->mem) B(AB, 2);
            hx::note_phase(strf("huge %zu: copy-assign short", N).c_str());
            *d = *e;
            ++n_checks;
            if (d->size() != 2 || !s0->inside(d->data()) || d->data()[0] != T('a') || d->data()[2] != 0) fail("copy-assign short over large", "target-invalid");
            live(0, "copy-assign short over large");
            hx::note_phase(strf("huge %zu: move-assign large into large", N).c_str());
            d->allocate(N);
            e->allocate(N + 1);
            const void *pe = e->data();
            *d = std::move(*e);
            ++n_checks;
            if (d->size() != N + 1 || (const void *)d->data() != pe) fail("move-assign large over large", "target-does-not-own-the-source-block");
            valid_any(e, s1, "move-assign large over large", "moved-from");
            ++n_checks;
            if (e->size() >= B::local_length && e->data() == d->data()) fail("move-assign large over large", "source-and-target-share-a-block");
            e->clear();
            live(1, "move-assign large over large, source cleared");
            if (thorough && sizeof(T) == 1 && N == (size_t(1) << 31)) {
                hx::note_phase(strf("huge %zu: copy-ctor", N).c_str());
                d->data()[0] = T('x');
                d->data()[N / 2] = T('y');
                d->data()[N] = T('z');
                e->~B();
                e = new (s1->mem) B(*d);
                ++n_checks;
                if (e->size() != N + 1 || e->data() == d->data() || e->data()[0] != T('x') || e->data()[N / 2] != T('y') || e->data()[N] != T('z') ||
                    e->data()[N + 1] != 0)
                    fail("copy-ctor", "target-wrong");
                live(2, "copy-ctor");
                ++n_checks;
                if (!(*e == *d) || e->compare(*d) != 0) fail("copy-ctor", "copy-compares-different");
            }
            e->~B();
            d->~B();
            live(0, "destroy all");
        });
        if (!oc.ok()) fail("scenario", std::string(vf::outkind_name(oc.kind)) + ":" + oc.str().substr(0, 80));
        for (Slot *sl : {s0, s1})
            for (int k = 0; k < 32; ++k)
                if (sl->fence0[k] != 0xCD || sl->fence1[k] != 0xCD) {
                    fail("scenario", "write-outside-object");
                    break;
                }
        vf::huge_reset();
        vf::g_alloc.huge_lazy = false;
        vf::g_alloc.max_request = saved_max;
        delete s0;
        delete s1;
    }
    void on_new_state(hx::Fails &f)
    {
        for (size_t N : {size_t(1) << 31, (size_t(1) << 31) + 7, size_t(1) << 32, (size_t(1) << 32) + 5}) scenario(N, f);
        hx::note_phase("reads");
    }
    void samples(std::vector<std::string> &out) const { out.push_back(strf("%s: %llu scenarios, %llu checks", nm.c_str(), (unsigned long long)n_scen, (unsigned long long)n_checks)); }
    void counters(std::map<std::string, uint64_t> &c) const
    {
        c["huge-buffer-scenarios"] += n_scen;
        c["huge-buffer-checks"] += n_checks;
    }
};

// ---------------------------------------------------------------------------------------------- language-level guarantees
// (a) constexpr default constructor: a namespace-scope buffer is constant-initialised, so a value given to it by an earlier
//     global's constructor survives until main() (early.h / early_battery.h);
// (b) assignment operators return the object assigned to: what is done with the result of (a = b) is done to a.
template <class T>
struct LangSys {
    typedef ST::buffer<T> B;
    std::string nm;
    uint64_t n_checks = 0;
    LangSys() { nm = strf("buffer<%s>: constant initialisation of globals, identity of assignment results", TypeName<T>::get()); }
    const char *name() const { return nm.c_str(); }
    size_t op_count() const { return 0; }
    bool enabled(size_t) const { return false; }
    std::string op_name(size_t) const { return ""; }
    void reset() {}
    void apply(size_t, bool, hx::Fails &) {}
    std::string key() const { return "lang"; }
    bool nontrivial() const { return true; }
    void on_new_state(hx::Fails &f)
    {
        const char *tn = TypeName<T>::get();
        std::string gp = vf_early::globals_problem();
        ++n_checks;
        if (!gp.empty() && sizeof(T) == 1)
            f.push_back(hx::Fail{"c05:global:constexpr-default-constructor-runs-at-start-up:" + gp,
                                 "a namespace-scope " + gp + " given a value by an earlier global's constructor is empty in main()"});
        static const size_t LL = B::local_length;
        for (size_t n1 : {size_t(2), LL + 4})
            for (size_t n2 : {size_t(3), LL + 9}) {
                std::basic_string<T> v1(n1, T('a')), v2(n2, T('b')), v3(LL + 2, T('c'));
                vf::Outcome oc = vf::guard([&] {
                    B a(v1.data(), v1.size()), b(v2.data(), v2.size()), c(v3.data(), v3.size());
                    auto &&r1 = (a = b);
                    ++n_checks;
                    if ((const void *)&r1 != (const void *)&a)
                        f.push_back(hx::Fail{strf("c05:%s:copy-assign:result-is-not-the-target", tn), "(a = b) does not denote a"});
                    (a = b) = c;
                    ++n_checks;
                    if (a.size() != v3.size() || a.data()[0] != T('c'))
                        f.push_back(hx::Fail{strf("c05:%s:copy-assign:chained-assignment-lost", tn), "(a = b) = c leaves a without c's value"});
                    B a2(v1.data(), v1.size()), b2(v2.data(), v2.size());
                    auto &&r2 = (a2 = std::move(b2));
                    ++n_checks;
                    if ((const void *)&r2 != (const void *)&a2)
                        f.push_back(hx::Fail{strf("c05:%s:move-assign:result-is-not-the-target", tn), "(a = std::move(b)) does not denote a"});
                    B a3(v1.data(), v1.size()), b3(v2.data(), v2.size());
                    (a3 = std::move(b3)) = c;
                    ++n_checks;
                    if (a3.size() != v3.size() || a3.data()[0] != T('c'))
                        f.push_back(hx::Fail{strf("c05:%s:move-assign:chained-assignment-lost", tn), "(a = std::move(b)) = c leaves a without c's value"});
                    (a3 = std::move(a2)).clear();
                    ++n_checks;
                    if (a3.size() != 0) f.push_back(hx::Fail{strf("c05:%s:move-assign:chained-call-lost", tn), "(a = std::move(b)).clear() leaves a non-empty"});
                });
                if (!oc.ok()) f.push_back(hx::Fail{strf("c05:%s:assignment-results:%s", tn, vf::outkind_name(oc.kind)), oc.str()});
            }
        hx::note_phase("reads");
    }
    void samples(std::vector<std::string> &out) const { out.push_back(strf("%s: %llu checks", nm.c_str(), (unsigned long long)n_checks)); }
    void counters(std::map<std::string, uint64_t> &c) const { c["language-level-checks"] += n_checks; }
};

template <class T>
static void add(std::vector<hx::Job> &jobs, int nslots, hx::Limits lim, bool reduced = false)
{
    jobs.push_back(hx::make_job<BufSys<T>>([nslots, reduced]() { return new BufSys<T>(nslots, reduced); }, lim));
}

static void build(std::vector<hx::Job> &jobs, const vf::Opts &o, std::string &rule, std::vector<std::string> &assumptions)
{
    rule = "states are canonical concrete states of the slot pool (object bytes + owned heap contents, pointers abstracted to ownership "
           "facts), deduplicated; non-trivial = at least two live buffers and at least one of them heap-backed";
    assumptions = {"future behaviour of a buffer depends only on its fields and the block it points to (numeric addresses are never "
                   "inspected except this==&other, which slot identity preserves), so canonical deduplication is sound",
                   "value alphabet: lengths {0,1,limit-1,limit,limit+1,3*limit} with two content variants plus fill values; other lengths "
                   "take the same branches (is_reffed() is the only size test)",
                   "self-move-assignment is required to leave a valid object; its value is not asserted"};
    hx::Limits lim;
    lim.max_states = 6000000;
    add<char>(jobs, 2, lim);
    add<char16_t>(jobs, 2, lim);
    add<wchar_t>(jobs, 2, lim);
    add<char32_t>(jobs, 2, lim);
    {
        bool T = o.thorough();
        hx::Limits l1;
        l1.max_depth = 0;
        jobs.push_back(hx::make_job<HugeSys<char>>([T]() { return new HugeSys<char>(T); }, l1));
        jobs.push_back(hx::make_job<HugeSys<char16_t>>([T]() { return new HugeSys<char16_t>(T); }, l1));
        jobs.push_back(hx::make_job<HugeSys<wchar_t>>([T]() { return new HugeSys<wchar_t>(T); }, l1));
        jobs.push_back(hx::make_job<HugeSys<char32_t>>([T]() { return new HugeSys<char32_t>(T); }, l1));
        jobs.push_back(hx::make_job<LangSys<char>>([]() { return new LangSys<char>(); }, l1));
        jobs.push_back(hx::make_job<LangSys<char16_t>>([]() { return new LangSys<char16_t>(); }, l1));
        jobs.push_back(hx::make_job<LangSys<wchar_t>>([]() { return new LangSys<wchar_t>(); }, l1));
        jobs.push_back(hx::make_job<LangSys<char32_t>>([]() { return new LangSys<char32_t>(); }, l1));
    }
    if (o.thorough()) {
        // three objects (chains a -> b -> c, three-way aliasing) over a reduced value alphabet {1, limit}
        add<char>(jobs, 3, lim, true);
        add<char16_t>(jobs, 3, lim, true);
        add<wchar_t>(jobs, 3, lim, true);
        add<char32_t>(jobs, 3, lim, true);
    }
}

int main(int argc, char **argv) { return hx::main_driver(argc, argv, "C05", build); }
